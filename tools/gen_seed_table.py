#!/usr/bin/env python3
"""Rewrite the seeded-change table of DESIGN.md (between the SEEDTABLE markers) from
/verif/seeded/*/meta.json."""
import glob, json, os, re
HERE = os.path.dirname(os.path.dirname(os.path.abspath(__file__)))
rows = []
n_first_miss = 0
for d in sorted(glob.glob(os.path.join(HERE, "seeded", "C*", "meta.json"))):
    m = json.load(open(d))
    caught = ", ".join(m["caught_by"]) or "-"
    others = ", ".join(c for c, rc in m["checks_quick_tier_exit_codes"].items() if rc != 1)
    first = m.get("first_run_before_strengthening")
    if first:
        fc = first["checks_quick_tier_exit_codes"]
        own_missed = fc.get(m["property"], 1) != 1
        others_first = [c for c, rc in fc.items() if rc == 1]
        note = " — owning check missed it at first" if own_missed else ""
        if others_first:
            note += f" (then only {', '.join(others_first)})"
        caught += note
        n_first_miss += 1
    ch = m["change"].replace("|", "\\|")
    nd = m["needs_to_manifest"].replace("|", "\\|")
    rows.append(f"| {m['seed']} | {m['property']} | {ch} | {nd} | {caught} | {others} |")
table = ("| Seed | Property | Change | Needs | Caught by (quick tier, exit 1) | Also run, silent |\n"
         "|------|----------|--------|-------|--------------------------------|------------------|\n"
         + "\n".join(rows))
p = os.path.join(HERE, "DESIGN.md")
s = open(p).read()
b, e = "<!-- SEEDTABLE:BEGIN -->", "<!-- SEEDTABLE:END -->"
assert b in s and e in s
s = s[:s.index(b) + len(b)] + "\n" + table + "\n" + s[s.index(e):]
open(p, "w").write(s)
print(len(rows), "seeds;", n_first_miss, "missed by the owning check at first")
