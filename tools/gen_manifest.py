#!/usr/bin/env python3
"""Regenerate /verif/MANIFEST.json from the table below (keeps it schema-valid at all times).

    python3 tools/gen_manifest.py          # writes MANIFEST.json, validates if jsonschema present
"""
import json
import os
import sys

HERE = os.path.dirname(os.path.dirname(os.path.abspath(__file__)))

# id -> (technique, level text, level note, design ref)
CHECKS = {
    "C02": (
        "plan post-condition monitor (integer oracle on every plan observed, incl. probe on "
        "scheduler calls made inside the analyzer)",
        "Exploration: thousands of seeded admissible configurations (boundary-seeking classes) "
        "x 4 schedulers, direct and through SpectrumAnalyzer.plan(); every plan observed is "
        "checked by an exact integer oracle. Held means: no unsafe/incomplete segmentation and "
        "no failure to build a plan on the configurations explored.",
        "Trusts refmodel.plan_safety (40 lines, no speckit import) and the generator's reading of "
        "'admissible'. Says nothing about configurations not generated.",
        "DESIGN.md section 4, C02"),
    "C03": (
        "plan post-condition monitor (grid identities at rounding level on every plan observed) + "
        "differential lpsd vs ltf(bmin=1,Lmin=1)",
        "Exploration: the C02 configuration stream x 4 schedulers; r*L=fs, f[j+1]=f[j]+r[j], grid "
        "start, Nyquist, b=f*L/fs checked to a few ulp, bmin shortfall bounded by one sample of L "
        "(and the vectorised lookup-grid ratio); lpsd_plan compared field-by-field with "
        "ltf_plan(bmin=1,Lmin=1).",
        "Trusts refmodel.plan_grid. The bmin allowance is read generously (truncation or rounding "
        "of L both pass).",
        "DESIGN.md section 4, C03"),
    "C04": (
        "plan post-condition monitor with a configuration-derived 'unclamped bin' oracle + paired "
        "ltf/vectorized runs + forced-bin-count analyses; known findings classified by mechanism",
        "Exploration: monotonicity, nearest-integer averaging with the N-L+1 cap, even spreading, "
        "realised overlap on every plan; log spacing and Kdes at bins the configuration says are "
        "unclamped; vectorised-vs-iterative bin count; force_target_nf returns exactly the target "
        "or raises.",
        "Trusts refmodel.plan_spacing and its reading of 'no clamp active'. Two literal violations "
        "of the 10 % clause are open known findings (KNOWN_FINDINGS.txt), matched by mechanism.",
        "DESIGN.md section 4, C04"),
}

PENDING_REASON = "check not built yet in this revision of /verif (build in progress; see DESIGN.md)"


def main():
    props = [json.loads(l) for l in open(os.path.join(HERE, "properties.jsonl")) if l.strip()]
    checks = []
    na = []
    for p in props:
        pid = p["id"]
        if pid in CHECKS and os.path.exists(
                os.path.join(HERE, "speckit_verif", "props", pid.lower() + ".py")):
            tech, text, note, ref = CHECKS[pid]
            checks.append({
                "property_id": pid,
                "quick_cmd": f"./check {pid} --tier quick",
                "thorough_cmd": f"./check {pid} --tier thorough",
                "evidence_file": f"/verif/evidence/{pid}.json",
                "replay_cmd_template": f"./check {pid} --replay {{path}}",
                "engine": "speckit_verif",
                "level_claimed": {"category": "exploration", "text": text, "design_ref": ref},
                "level_note": note,
                "technique": tech,
            })
        else:
            na.append({"property_id": pid, "reason": PENDING_REASON})
    manifest = {
        "version": 1,
        "setup_cmd": "sh tools/setup.sh",
        "hooks": {
            "guard": "SPECKIT_VERIF",
            "enable": "no source hooks: monitors are installed from the harness by rebinding "
                      "module attributes (speckit.schedulers.*, speckit.analysis._stats_*) in the "
                      "worker process; SPECKIT_VERIF_REPO selects the tree under test",
            "baseline_off_cmd": "cd /repo && /venv/bin/python -m pytest -ra -q -p no:cacheprovider "
                                "--timeout=900 --continue-on-collection-errors",
            "source_commits": [],
            "add_only": True,
        },
        "engines": [{
            "name": "speckit_verif",
            "path": "/verif/speckit_verif",
            "serves_properties": [c["property_id"] for c in checks],
            "kind_free_text": "runtime monitoring: seeded hostile workloads run against the real "
                              "code in worker subprocesses; reference-model, invariant, "
                              "metamorphic, history and schedule-stress monitors; three-valued "
                              "verdicts",
        }],
        "checks": checks,
        "notes": "All checks: ./check <ID> --tier quick|thorough; exit 0 held / 1 VIOLATION / 2 "
                 "INCONCLUSIVE. Known findings: /verif/KNOWN_FINDINGS.txt. Seeded breaking "
                 "changes used for self-validation: /verif/seeded/.",
        "not_applicable": na,
    }
    with open(os.path.join(HERE, "MANIFEST.json"), "w") as f:
        json.dump(manifest, f, indent=1)
    try:
        import jsonschema
        schema = json.load(open("/root/.vp/MANIFEST.schema.json"))
        jsonschema.validate(manifest, schema)
        print("MANIFEST.json valid;", len(checks), "checks,", len(na), "not_applicable")
    except ImportError:
        print("MANIFEST.json written (jsonschema not available to validate)")


if __name__ == "__main__":
    sys.exit(main())
