#!/usr/bin/env python3
"""Regenerate /verif/MANIFEST.json from the table below (keeps it schema-valid at all times).

    python3 tools/gen_manifest.py          # writes MANIFEST.json, validates if jsonschema present
"""
import json
import os
import sys

HERE = os.path.dirname(os.path.dirname(os.path.abspath(__file__)))

# id -> (technique, level text, level note, design ref)
CHECKS = {
    "C01": (
        "reference-model differential at kernel level with red-zone buffers, write guards, "
        "interpreted-kernel third opinion and a dispatcher probe; CUDA kernels via Numba's simulator",
        "Exploration: thousands of seeded kernel calls (all 6 Numba + 6 NumPy functions, 6 CUDA "
        "wrappers in the simulator) compared with a direct windowed-DFT evaluation within a "
        "calibrated rounding budget, sign of Im(XY) included; inputs fingerprinted; pads poisoned.",
        "Trusts refmodel.ref_stats (float64 direct sums) and the budget of DESIGN section 3 (10x worst "
        "measured error). CUDA: simulator only, no PTX/device fastmath.",
        "DESIGN.md section 4, C01"),
    "C02": (
        "plan post-condition monitor (integer oracle on every plan observed, incl. probe on "
        "scheduler calls made inside the analyzer)",
        "Exploration: thousands of seeded admissible configurations (boundary-seeking classes) "
        "x 4 schedulers, direct and through SpectrumAnalyzer.plan(); every plan observed is "
        "checked by an exact integer oracle. Held means: no unsafe/incomplete segmentation and "
        "no failure to build a plan on the configurations explored.",
        "Trusts refmodel.plan_safety (no speckit import) and the generator's reading of "
        "'admissible'. Says nothing about configurations not generated.",
        "DESIGN.md section 4, C02"),
    "C03": (
        "plan post-condition monitor (grid identities at rounding level on every plan observed) + "
        "differential lpsd vs ltf(bmin=1,Lmin=1)",
        "Exploration: the C02 configuration stream x 4 schedulers; r*L=fs, f[j+1]=f[j]+r[j], grid "
        "start, Nyquist, b=f*L/fs checked to a few ulp, bmin shortfall bounded by one sample of L "
        "(and the vectorised lookup-grid ratio); lpsd_plan compared field-by-field with "
        "ltf_plan(bmin=1,Lmin=1).",
        "Trusts refmodel.plan_grid. The bmin allowance is read generously (truncation or rounding "
        "of L both pass).",
        "DESIGN.md section 4, C03"),
    "C04": (
        "plan post-condition monitor with a configuration-derived 'unclamped bin' oracle + paired "
        "ltf/vectorized runs + forced-bin-count analyses; known findings classified by mechanism",
        "Exploration: monotonicity, nearest-integer averaging with the N-L+1 cap, even spreading, "
        "realised overlap on every plan; log spacing and Kdes at bins the configuration says are "
        "unclamped; vectorised-vs-iterative bin count; force_target_nf returns exactly the target "
        "or raises.",
        "Trusts refmodel.plan_spacing and its reading of 'no clamp active'. Two literal violations "
        "of the 10 % clause are open known findings (KNOWN_FINDINGS.txt), matched by mechanism.",
        "DESIGN.md section 4, C04"),
    "C05": (
        "end-to-end reference-model differential on public result fields + band-restriction "
        "metamorphic check + dispatcher probe",
        "Exploration: hundreds/thousands of seeded analyses (records x schedulers x windows x orders "
        "x backends incl. CUDA simulator); every sampled bin equals the reference estimator on the "
        "result's own (f, L, D) within the rounding budget; window sums exact; single-bin requests; "
        "band-restricted == in-band bins of unrestricted in every per-bin field.",
        "Trusts refmodel.ref_stats, the harness's own Kaiser alpha(psll) transcription and np.kaiser.",
        "DESIGN.md section 4, C05"),
    "C06": (
        "closed-form calibration oracle (sinusoid power, ENBW) + metamorphic scaling laws",
        "Exploration: sinusoids of random amplitude/phase/fractional bin analysed at their own "
        "frequency must give ps = A^2/2 within the window's side-lobe leakage; ENBW formula; "
        "channel scaling c and sampling-rate relabelling a checked at 1e-11.",
        "Tolerance for the power clause derived from the requested PSLL (image line and DC term); "
        "fs-relabelling asserted only when the two plans have identical (L, D).",
        "DESIGN.md section 4, C06"),
    "C07": (
        "physical-statement oracle (gain, delay) on all backends with decisive-bin selection",
        "Exploration: y=g*x must give Hxy=g, coh=1 at every bin (1e-9); y=x delayed by d must give "
        "Hxy*exp(+i*2*pi*f*d/fs) within the d/L edge-effect tolerance on decisive bins; numba, "
        "numpy and cuda(simulator) backends.",
        "Edge-effect tolerance tau=max(0.02, 2*2pi*ml*d/L) calibrated on the unchanged tree (worst "
        "0.13 tau); a conjugated estimate is >= 3 tau on decisive bins by construction.",
        "DESIGN.md section 4, C07"),
    "C08": (
        "metamorphic pairs (record, record + polynomial trend) through the public API",
        "Exploration: adding a degree<=p polynomial (amplitude 1e2..1e8 x rms) to either/both "
        "channels leaves XX, YY, XY, M2 unchanged within the rounding budget scaled by the trend; a "
        "degree p+1 trend must change the low bins; order -1 equals the raw windowed reference.",
        "Budget of DESIGN section 3 with A taken from the trend. cuda via simulator.",
        "DESIGN.md section 4, C08"),
    "C09": (
        "algebraic identity monitor on every two-channel result + swap/solo re-analysis",
        "Exploration: coherence in [0,1], Cauchy-Schwarz, coh=1 for K=1 and linearly dependent "
        "channels, swap symmetry, pair-vs-solo auto-density, GyyCx+GyyRx=Gyy, GyySx=Gyy(1-coh) on "
        "couplings with genuine phase.",
        "Identities asserted at 1e-9..1e-12 relative; solo-vs-pair within the rounding budget.",
        "DESIGN.md section 4, C09"),
    "C10": (
        "formula oracle on real and synthetic SpectrumResult states + Monte-Carlo spread monitor",
        "Exploration + statistical: every *_dev/*_error equals its Bendat-Piersol expression of the "
        "reported estimate, coherence and navg (1e-12) over a dense (g2, n, magnitude) sweep of "
        "synthetic states and over computed results; Monte-Carlo ratio of observed spread to "
        "reported deviation inside calibrated bands.",
        "Monte-Carlo bands [0.85,1.15] / [0.78,1.25] cover 5 sigma of MC error plus asymptotic bias.",
        "DESIGN.md section 4, C10"),
    "C11": (
        "reference-model differential for the segment scatter + identity monitor + Monte-Carlo",
        "Exploration + statistical: XY_M2 equals the population variance of reference per-segment "
        "products; emp_var=M2/navg, emp_dev=sqrt, Gxx/Gxy_emp_dev scaled by 2/(fs*S2) exactly; zero "
        "for K=1; non-negative; mean emp/analytic ratio for white Gaussian noise in [0.93,1.07].",
        "Budget of DESIGN section 3 for M2; identities at 1e-12.",
        "DESIGN.md section 4, C11"),
    "C12": (
        "side-lobe envelope oracle on single-bin analyses of pure sinusoids; known finding by mechanism",
        "Exploration: response at offsets beyond the main lobe must be below -(P-1) dB (two-line "
        "bound near the image line), for P in [40,200], L>=64, fractional bins, within the float64 "
        "floor of the recurrence.",
        "Literal excess inside the two-line bound is the open known finding kaiser-two-line-"
        "superposition; cases beyond the float64 floor are not generated.",
        "DESIGN.md section 4, C12"),
    "C13": (
        "write guards (byte fingerprints, read-only arrays) + metamorphic layout/zero-fill equality + "
        "finiteness scan",
        "Exploration: caller arrays unchanged after every API call; NaN/Inf == zero-filled; all "
        "layouts/dtypes give identical statistics; every density/coherence/TF finite for finite "
        "input (error bars where coherence>0).",
        "Exclusions stated in DESIGN (error bars at coh=0, cf_db where cf=0).",
        "DESIGN.md section 4, C13"),
    "C14": (
        "schedule stress (threads x chunk sizes x threading layers x repetitions under CPU load) vs "
        "single-thread and reference; random call/attribute histories vs fresh objects",
        "Exploration: same analysis under many (layer, threads, chunksize) gives identical "
        "statistics (1e-12; bitwise recorded); plan cache identity/content; attribute values "
        "independent of access order; distinct thread distributions observed are reported.",
        "A race needs the losing interleaving to occur; absence of a report is 'held on the "
        "schedules observed'.",
        "DESIGN.md section 4, C14"),
    "C15": (
        "least-squares identity monitor (bounds, invariance under permutation/re-mixing, analytic vs "
        "numeric, SISO closed form)",
        "Exploration: q in 1..4 systems with gains, delays and phases; residual within [0, asd_y] "
        "on bins with K>q; ~0 for exact combinations; invariant under permutation and invertible "
        "re-mixing; analytic == numeric; q=1 equals sqrt(Gyy(1-coh)).",
        "Tolerances 1e-8 asd_y (invariance, cond<=100), 1e-9 (SISO).",
        "DESIGN.md section 4, C15"),
    "C16": (
        "reference-model differential (rational-arithmetic Lagrange weights, direct stencil evaluation)",
        "Exploration: taps for odd orders 1..111 equal textbook weights (1e-12) and sum to 1; "
        "interior outputs equal the stencil sum; polynomials reproduced; integer/zero shifts exact; "
        "constant and time-varying paths agree on interior samples; DataFrame wrapper semantics.",
        "Reference weights computed with fractions.Fraction.",
        "DESIGN.md section 4, C16"),
    "C17": (
        "history monitor: random partitions of a stream vs a twin instance consuming it in one "
        "request; independent IIR cascade reference",
        "Exploration: all generators x seeds x random block partitions (zeros included) and "
        "get_sample runs across the 4096 refill; cascade equals per-section scipy.lfilter with "
        "carried state.",
        "Mixing get_sample and get_series on one instance is not asserted (documented prefetch).",
        "DESIGN.md section 4, C17"),
    "C18": (
        "analytic evaluation of generator state (freqz on the instance's coefficients) + DFT of outputs",
        "Exploration: |H|^2 scale^2 rms^2/fs f^alpha within 1.5 dB on the inner range and the "
        "corner bound on the full range for thousands of (alpha, fs, fmin, fmax); white variance; "
        "fftnoise magnitudes exact and real output; band-limited noise has no out-of-band power.",
        "'about 1 dB between the corners' made precise as in DESIGN C18.",
        "DESIGN.md section 4, C18"),
    "C19": (
        "linear-algebra / trapezoid / Parseval oracles",
        "Exploration + statistical: detrended series orthogonal to Legendre basis, polynomials -> 0, "
        "idempotent; df_detrend per column; integral_rms == sqrt(trapz) on in-band points, additive, "
        "monotone; get_rms == integral_rms; full-band rms vs time-domain rms within 6 %.",
        "Parseval tolerance covers uncovered band edges and estimator variance.",
        "DESIGN.md section 4, C19"),
    "C20": (
        "relation-table monitor over all attributes + interpolation oracle + export/copy/pickle round-trip histories",
        "Exploration: every documented relation (1e-12), None-ness by analysis type, unknown names "
        "raise AttributeError, get_measurement (grid/linear/clamped/scalar), to_dataframe for every "
        "result shape, copy/deepcopy/pickle in any order relative to attribute access.",
        "Relation table transcribed from the class documentation.",
        "DESIGN.md section 4, C20"),
}

PENDING_REASON = "check not built yet in this revision of /verif (build in progress; see DESIGN.md)"


def main():
    props = [json.loads(l) for l in open(os.path.join(HERE, "properties.jsonl")) if l.strip()]
    checks = []
    na = []
    for p in props:
        pid = p["id"]
        if pid in CHECKS and os.path.exists(
                os.path.join(HERE, "speckit_verif", "props", pid.lower() + ".py")):
            tech, text, note, ref = CHECKS[pid]
            checks.append({
                "property_id": pid,
                "quick_cmd": f"./check {pid} --tier quick",
                "thorough_cmd": f"./check {pid} --tier thorough",
                "evidence_file": f"/verif/evidence/{pid}.json",
                "replay_cmd_template": f"./check {pid} --replay {{path}}",
                "engine": "speckit_verif",
                "level_claimed": {"category": "exploration", "text": text, "design_ref": ref},
                "level_note": note,
                "technique": tech,
            })
        else:
            na.append({"property_id": pid, "reason": PENDING_REASON})
    manifest = {
        "version": 1,
        "setup_cmd": "sh tools/setup.sh",
        "hooks": {
            "guard": "SPECKIT_VERIF",
            "enable": "no source hooks: monitors are installed from the harness by rebinding "
                      "module attributes (speckit.schedulers.*, speckit.analysis._stats_*) in the "
                      "worker process; SPECKIT_VERIF_REPO selects the tree under test",
            "baseline_off_cmd": "cd /repo && /venv/bin/python -m pytest -ra -q -p no:cacheprovider "
                                "--timeout=900 --continue-on-collection-errors",
            "source_commits": [],
            "add_only": True,
        },
        "engines": [{
            "name": "speckit_verif",
            "path": "/verif/speckit_verif",
            "serves_properties": [c["property_id"] for c in checks],
            "kind_free_text": "runtime monitoring: seeded hostile workloads run against the real "
                              "code in worker subprocesses; reference-model, invariant, "
                              "metamorphic, history and schedule-stress monitors; three-valued "
                              "verdicts",
        }],
        "checks": checks,
        "notes": "All checks: ./check <ID> --tier quick|thorough; exit 0 held / 1 VIOLATION / 2 "
                 "INCONCLUSIVE. Known findings: /verif/KNOWN_FINDINGS.txt. Seeded breaking "
                 "changes used for self-validation: /verif/seeded/.",
        "not_applicable": na,
    }
    with open(os.path.join(HERE, "MANIFEST.json"), "w") as f:
        json.dump(manifest, f, indent=1)
    try:
        import jsonschema
        schema = json.load(open("/root/.vp/MANIFEST.schema.json"))
        jsonschema.validate(manifest, schema)
        print("MANIFEST.json valid;", len(checks), "checks,", len(na), "not_applicable")
    except ImportError:
        print("MANIFEST.json written (jsonschema not available to validate)")


if __name__ == "__main__":
    sys.exit(main())
