#!/bin/sh
# Regenerate every evidence file from /verif against /repo itself (quick tier, VERIF_SEED default 0)
# and validate each against the schema.  Run this before committing evidence.
cd "$(dirname "$0")/.."
unset SPECKIT_VERIF_REPO
FAIL=0
for C in C01 C02 C03 C04 C05 C06 C07 C08 C09 C10 C11 C12 C13 C14 C15 C16 C17 C18 C19 C20; do
  ./check $C --tier "${1:-quick}" > /tmp/regen_$C.log 2>&1; RC=$?
  echo "$C rc=$RC $(grep -E '^C[0-9]+ tier' /tmp/regen_$C.log | cut -c1-110)"
  [ $RC -ne 0 ] && FAIL=1
done
python3-vt - <<'PY'
import json, jsonschema, glob
s=json.load(open('/root/.vp/EVIDENCE.schema.json'))
for f in sorted(glob.glob('/verif/evidence/*.json')):
    e=json.load(open(f)); jsonschema.validate(e,s)
    assert e['coverage']['tree_under_test']=='/repo', f
    assert len(e['coverage']['samples'])>=1, f
print('all evidence files valid and produced against /repo')
PY
exit $FAIL
