#!/bin/sh
# Run every check for several seeds; print one line per (check, seed).  Usage:
#   tools/sweep.sh <tier> "<seeds>" ["<ids>"]
cd "$(dirname "$0")/.."
sh tools/setup.sh >/dev/null 2>&1
TIER="${1:-quick}"; SEEDS="${2:-0 1 2}"; IDS="${3:-C01 C02 C03 C04 C05 C06 C07 C08 C09 C10 C11 C12 C13 C14 C15 C16 C17 C18 C19 C20}"
mkdir -p sweep_logs
for S in $SEEDS; do
  for C in $IDS; do
    T0=$(date +%s)
    VERIF_SEED=$S ./check $C --tier $TIER > sweep_logs/$C.$TIER.$S.log 2>&1; RC=$?
    T1=$(date +%s)
    echo "seed=$S $C rc=$RC wall=$((T1-T0))s $(grep -c '^VIOLATION' sweep_logs/$C.$TIER.$S.log) violations; $(grep -E '^INCONCLUSIVE' sweep_logs/$C.$TIER.$S.log | head -1 | cut -c1-150)"
    if [ $RC -ne 0 ]; then grep -E '^  \[' sweep_logs/$C.$TIER.$S.log | cut -c1-400; fi
  done
done
echo SWEEP-DONE
