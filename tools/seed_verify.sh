#!/bin/sh
# Verify a seeded breaking change independently, then run our checks against it.
#   tools/seed_verify.sh <seed-name> <dir with patch.diff + demo.py> "<check ids>" [--no-tests]
# Steps (all in a scratch worktree of /repo HEAD under /tmp, removed afterwards):
#   1. patch applies; 2. pinned test-suite passes with it; 3. demo fails with it, passes without;
#   4. each listed check's quick tier is run with SPECKIT_VERIF_REPO=<scratch> (expected: exit 1).
# Results are appended to <dir>/verify.log; nothing is ever applied to /repo itself.
set -u
NAME="$1"; SRC="$2"; CHECKS="$3"; NOTESTS="${4:-}"
VERIF="$(cd "$(dirname "$0")/.." && pwd)"
WT="/tmp/seedverify_$NAME"
LOG="$SRC/verify.log"
: > "$LOG"
git -C /repo worktree remove --force "$WT" >/dev/null 2>&1
rm -rf "$WT"
git -C /repo worktree add -q --detach "$WT" HEAD || exit 3
cleanup() { git -C /repo worktree remove --force "$WT" >/dev/null 2>&1; rm -rf "$WT"; }
trap cleanup EXIT
cd "$WT" || exit 3
ORIG=$(grep -o '/tmp/seedwt/C[0-9]*[a-z]*' "$SRC/demo.py" | head -1)
mkdir -p "$WT/_seed"
if [ -n "$ORIG" ]; then sed "s#$ORIG#$WT#g" "$SRC/demo.py" > "$WT/_seed/demo.py"; else cp "$SRC/demo.py" "$WT/_seed/demo.py"; fi
export PYTHONPATH="$WT" NUMBA_CACHE_DIR="$WT/.numba_cache"
echo "== demo on unmodified tree" >> "$LOG"
timeout 600 /venv/bin/python _seed/demo.py >> "$LOG" 2>&1; D0=$?
echo "demo_without_exit=$D0" >> "$LOG"
if ! git apply "$SRC/patch.diff" >> "$LOG" 2>&1; then echo "patch_applies=no" >> "$LOG"; echo "$NAME: patch does not apply"; exit 4; fi
echo "patch_applies=yes" >> "$LOG"
echo "== demo with the change" >> "$LOG"
timeout 600 /venv/bin/python _seed/demo.py >> "$LOG" 2>&1; D1=$?
echo "demo_with_exit=$D1" >> "$LOG"
T="skipped"
if [ "$NOTESTS" != "--no-tests" ]; then
  timeout 1800 /venv/bin/python -m pytest -q -p no:cacheprovider --timeout=900 -x > "$WT/pytest.log" 2>&1
  T=$(tail -1 "$WT/pytest.log")
fi
echo "tests_with_change=$T" >> "$LOG"
unset PYTHONPATH NUMBA_CACHE_DIR
cd "$VERIF"
RES=""
for C in $CHECKS; do
  SPECKIT_VERIF_REPO="$WT" ./check "$C" --tier quick > "$WT/check_$C.log" 2>&1; RC=$?
  echo "== check $C exit=$RC" >> "$LOG"
  grep -E "^(VIOLATION|KNOWN-FINDING|INCONCLUSIVE|  \[|C[0-9]+ tier)" "$WT/check_$C.log" | cut -c1-400 | sed 's/^/CHK /' >> "$LOG"
  RES="$RES $C=$RC"
done
echo "$NAME: demo without=$D0 with=$D1 | tests: $T | checks:$RES"
