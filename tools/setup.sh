#!/bin/sh
# MANIFEST.setup_cmd: build the framework from files on disk only (offline).
set -e
cd "$(dirname "$0")/.."
mkdir -p .cache/numba .cache/mpl evidence replays
chmod +x check
/venv/bin/python -m compileall -q speckit_verif >/dev/null
# smoke test: the repository's interpreter, its dependencies and the tree under test import
PYTHONPATH="$(pwd)" /venv/bin/python - <<'PY'
import sys
sys.path.insert(0, "/repo")
import numpy, scipy, numba, speckit
import speckit_verif.refmodel, speckit_verif.gen, speckit_verif.runner
print("setup ok: numpy", numpy.__version__, "numba", numba.__version__, "speckit", speckit.__file__)
PY
