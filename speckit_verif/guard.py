"""Sanitizer analogues for JIT code: red-zone buffers, write guards, interpreted kernels."""
import hashlib

import numpy as np

PAD = 4096
POISON = 1e200


def redzone(a, pad=PAD, poison=POISON):
    """Return (view, buffer): `view` equals `a` and sits in the middle of a buffer whose pads
    hold `poison`, so that a read outside the array drags the poison into the result."""
    a = np.asarray(a)
    if a.ndim == 1:
        buf = np.full(a.shape[0] + 2 * pad, poison, dtype=a.dtype)
        buf[pad:pad + a.shape[0]] = a
        return buf[pad:pad + a.shape[0]], buf
    if a.ndim == 2:
        buf = np.full((a.shape[0] + 2 * pad, a.shape[1]), poison, dtype=a.dtype)
        buf[pad:pad + a.shape[0], :] = a
        return buf[pad:pad + a.shape[0], :], buf
    raise ValueError("redzone supports 1-D and 2-D arrays")


def redzone_starts(starts, N, pad=64):
    """Start vector whose out-of-range neighbours point into the record's right red zone."""
    s = np.asarray(starts)
    buf = np.full(s.shape[0] + 2 * pad, N, dtype=s.dtype)
    buf[pad:pad + s.shape[0]] = s
    return buf[pad:pad + s.shape[0]], buf


def pads_intact(buf, n, pad=PAD, poison=POISON):
    if buf.ndim == 1:
        return bool(np.all(buf[:pad] == poison) and np.all(buf[pad + n:] == poison))
    return bool(np.all(buf[:pad] == poison) and np.all(buf[pad + n:] == poison))


def fingerprint(a):
    """Byte-level fingerprint (NaN payloads included) of an array's logical content."""
    a = np.asarray(a)
    return hashlib.sha1(np.ascontiguousarray(a).tobytes()).hexdigest() + str(a.shape) + str(a.dtype)


def poisoned(values, limit=1e150):
    v = np.asarray(values, dtype=np.complex128).ravel()
    return bool(np.any(~np.isfinite(v.real)) or np.any(~np.isfinite(v.imag))
                or np.any(np.abs(v) > limit))


def py_kernel(func):
    """Uncompiled Python source of a Numba dispatcher (bounds-checked third opinion)."""
    return getattr(func, "py_func", None)
