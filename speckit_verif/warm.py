"""Compile every JIT kernel once (fills NUMBA_CACHE_DIR so shards start fast)."""
import sys

from .worker import setup_repo_path

setup_repo_path()

import numpy as np  # noqa: E402


def main():
    from speckit import core, noise
    x = np.linspace(0.0, 1.0, 64)
    y = x[::-1].copy()
    st = np.array([0, 16, 32], dtype=np.int64)
    L = 32
    w = np.hanning(L)
    om = 0.3
    for order in (1, 2):
        Q = core._build_Q(L, order)
        core._stats_poly_auto(x, st, L, w, om, Q)
        core._stats_poly_csd(x, y, st, L, w, om, Q)
    core._stats_win_only_auto(x, st, L, w, om)
    core._stats_win_only_csd(x, y, st, L, w, om)
    core._stats_detrend0_auto(x, st, L, w, om)
    core._stats_detrend0_csd(x, y, st, L, w, om)
    try:
        g = noise.alpha_noise(10.0, 0.1, 2.0, 1.0, init_filter=False, seed=1)
        g.get_series(8)
    except Exception:
        pass


if __name__ == "__main__":
    try:
        main()
    except Exception as e:  # warm-up is best effort
        print("warm-up failed:", repr(e), file=sys.stderr)
