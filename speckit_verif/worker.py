"""Worker process: runs one shard (or one replay) of one property against the tree under test.

    python -m speckit_verif.worker <ID> <shard.json> <out.json> <progress.json>

The tree under test is SPECKIT_VERIF_REPO (default /repo); it is put first on sys.path so
that exactly these sources are imported (a scratch copy is exercised the same way /repo is).
"""
import faulthandler
import importlib
import json
import logging
import os
import sys
import traceback
import warnings


def setup_repo_path():
    repo = os.environ.get("SPECKIT_VERIF_REPO", "/repo")
    if repo not in sys.path[:1]:
        sys.path.insert(0, repo)
    return repo


def main(argv):
    faulthandler.enable()
    pid, shard_file, out_file, progress_file = argv[1:5]
    repo = setup_repo_path()
    logging.disable(logging.CRITICAL)
    warnings.simplefilter("ignore")
    from .recorder import Recorder, jsonable

    with open(shard_file) as f:
        shard = json.load(f)
    rec = Recorder(progress_file)
    mod = importlib.import_module("speckit_verif.props." + pid.lower())
    status = "ok"
    err = None
    try:
        import speckit  # noqa: F401  (the tree under test)
        got = os.path.realpath(os.path.dirname(os.path.dirname(speckit.__file__)))
        if got != os.path.realpath(repo):
            raise RuntimeError(f"speckit imported from {got}, expected {repo}")
        if shard.get("replay") is not None:
            mod.replay(shard["replay"], rec)
        else:
            mod.run_shard(shard["params"], rec)
    except SystemExit as e:  # the library calls sys.exit() on some paths
        status = "harness_error"
        err = f"SystemExit({e.code}) escaped a case: {jsonable(rec.current)}"
    except BaseException:
        status = "harness_error"
        err = traceback.format_exc()[-3000:]
    out = rec.dump()
    out["status"] = status
    out["error"] = err
    out["shard"] = shard.get("name")
    with open(out_file, "w") as f:
        json.dump(out, f)
    rec.close()
    return 0


if __name__ == "__main__":
    sys.exit(main(sys.argv))
