"""pytest plugin: run the repository's own test-suite with the monitors switched on.

    PYTHONPATH=/verif  python -m pytest -p speckit_verif.pytest_plugin ...

Every plan any scheduler returns while the tests run is checked by the plan oracles (C02-C04) and
every 25th backend statistics call made by the dispatcher is compared with the reference model
(C01).  Observations are appended to the JSON-lines file named by SPECKIT_VERIF_PLUGIN_OUT; the
plugin never changes a test's outcome.
"""
import json
import os
import time

import numpy as np

from . import gen, refmodel, resultcheck
from .probes import KernelProbe, SchedulerProbe
from .recorder import Recorder

OUT = os.environ.get("SPECKIT_VERIF_PLUGIN_OUT")
STATE = {"plans": 0, "kernel_calls": 0, "kernel_checked": 0, "viol": [], "t_oracle": 0.0,
         "results": 0, "results_checked": 0}
RESULT_REC = Recorder()     # collects what the result-level monitors (C09, C10, C11, C20) report
_ORIG = {}
INV = {v: k for k, v in gen.SCHED_FUNC.items()}
BUDGET_S = float(os.environ.get("SPECKIT_VERIF_PLUGIN_BUDGET", "240"))


def _emit(kind, key, msg):
    if len(STATE["viol"]) < 200:
        STATE["viol"].append({"kind": kind, "key": key, "msg": msg[:600]})


def _plan_cb(name, args, out, depth):
    sched = INV.get(name)
    if sched is None or STATE["t_oracle"] > BUDGET_S:
        return
    need = ("N", "fs", "olap", "Jdes", "Kdes")
    if not all(k in args for k in need):
        return
    cfg = {k: args[k] for k in need}
    cfg["bmin"] = args.get("bmin", 1.0)
    cfg["Lmin"] = args.get("Lmin", 1)
    if not (8 <= cfg["N"] and 0 <= cfg["olap"] < 1 and 1 <= cfg["bmin"] < cfg["N"] / 2
            and 1 <= cfg["Lmin"] <= cfg["N"] and cfg["Jdes"] >= 1 and cfg["Kdes"] >= 1):
        return
    t0 = time.time()
    STATE["plans"] += 1
    try:
        for pid, fn in (("C02", refmodel.plan_safety), ("C03", refmodel.plan_grid),
                        ("C04", refmodel.plan_spacing)):
            for key, msg in fn(out, cfg, sched):
                _emit(pid, key, f"{name}({cfg}): {msg}")
    except Exception as e:
        _emit("oracle-error", "oracle-error", repr(e))
    STATE["t_oracle"] += time.time() - t0


def _kernel_cb(name, args, out):
    STATE["kernel_calls"] += 1
    if STATE["kernel_calls"] % 25 != 0 or STATE["t_oracle"] > BUDGET_S:
        return
    t0 = time.time()
    try:
        cs = "_csd" in name
        if cs:
            x, y, st, L, w, om = args[:6]
            Q = args[6] if len(args) > 6 else None
        else:
            x, st, L, w, om = args[:5]
            y = None
            Q = args[5] if len(args) > 5 else None
        if "win_only" in name:
            order = -1
        elif "detrend0" in name:
            order = 0
        else:
            order = int(Q.shape[1]) - 1
        if len(st) * L > 4_000_000:
            return
        xs = [np.asarray(x)] + ([np.asarray(y)] if y is not None else [])
        if any((not np.all(np.isfinite(a))) or float(np.max(np.abs(a))) > 1e100 for a in xs):
            return  # outside the reference model's domain (tests feeding non-finite / overflow data)
        ref = refmodel.ref_stats(x, y, st, L, w, om, order)
        bad, worst = refmodel.compare_stats(tuple(float(v) for v in out), ref)
        STATE["kernel_checked"] += 1
        for nm, err, bound in bad:
            _emit("C01", f"kernel:{nm}", f"{name}(L={L}, K={len(st)}, omega={om:.6g}): {nm} err "
                                         f"{err:.3e} > budget {bound:.3e}")
    except Exception as e:
        _emit("oracle-error", "oracle-error", repr(e))
    STATE["t_oracle"] += time.time() - t0


def _check_result(an, res):
    """Result-level monitors on every result the tests' own analyses produce."""
    STATE["results"] += 1
    if STATE["t_oracle"] > BUDGET_S:
        return
    t0 = time.time()
    try:
        data = np.asarray(getattr(an, "data", np.zeros(1)), dtype=float)
        raw = [np.asarray(getattr(res, k)) for k in ("XX", "YY", "XY", "M2") if getattr(res, k, None) is not None]
        if (not np.all(np.isfinite(data))) or float(np.max(np.abs(data), initial=0.0)) > 1e100 \
                or any(not np.all(np.isfinite(a)) for a in raw):
            return   # outside the monitors' domain (tests feeding non-finite / overflowing data)
        fs = float(an.fs)
        STATE["results_checked"] += 1
        for pid, fn in (("C09", lambda r: resultcheck.c09_identities(res, r, "[repo test] ") if res.iscsd else None),
                        ("C10", lambda r: resultcheck.c10_formulas(res, r, "[repo test] ")),
                        ("C11", lambda r: resultcheck.c11_identities(res, r, fs, "[repo test] ")),
                        ("C20", lambda r: resultcheck.c20_relations(res, r, fs, "[repo test] "))):
            r = Recorder()
            r.case({"kind": "repo-test-result", "nf": int(res.nf)}, nontrivial=True)
            fn(r)
            for key, lst in r.violations.items():
                _emit(pid, key, lst[0]["msg"])
    except Exception as e:
        _emit("oracle-error", "oracle-error", "result monitor: " + repr(e))
    STATE["t_oracle"] += time.time() - t0


def _install_result_monitors():
    from speckit.analysis import SpectrumAnalyzer
    for name in ("compute", "compute_single_bin"):
        orig = getattr(SpectrumAnalyzer, name)
        _ORIG[name] = orig

        def wrapped(self, *a, __orig=orig, **k):
            out = __orig(self, *a, **k)
            _check_result(self, out)
            return out
        wrapped.__name__ = name
        wrapped.__doc__ = orig.__doc__
        setattr(SpectrumAnalyzer, name, wrapped)


def _uninstall_result_monitors():
    from speckit.analysis import SpectrumAnalyzer
    for name, orig in _ORIG.items():
        setattr(SpectrumAnalyzer, name, orig)
    _ORIG.clear()


_SP = SchedulerProbe(_plan_cb)
_KP = KernelProbe(_kernel_cb)


def pytest_sessionstart(session):
    import speckit  # noqa: F401
    _SP.install()
    _KP.install()
    _install_result_monitors()


def pytest_sessionfinish(session, exitstatus):
    _SP.uninstall()
    _KP.uninstall()
    _uninstall_result_monitors()
    if OUT:
        with open(OUT, "w") as f:
            json.dump({"plans": STATE["plans"], "kernel_calls": STATE["kernel_calls"],
                       "kernel_checked": STATE["kernel_checked"], "violations": STATE["viol"],
                       "results": STATE["results"], "results_checked": STATE["results_checked"],
                       "oracle_seconds": STATE["t_oracle"], "pytest_exitstatus": int(exitstatus)}, f)
