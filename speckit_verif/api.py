"""Shared public-API workload helpers: analysis descriptors, data, windows, reference check."""
import math

import numpy as np

from . import gen, refmodel


# -----------------------------------------------------------------------------
# Windows as the harness builds them (independent of the repository's own code)
# -----------------------------------------------------------------------------

def _rect(L):
    return np.ones(L)


def _randwin(L):
    r = np.random.default_rng(1000 + int(L))
    return r.uniform(0.1, 1.0, size=int(L)) * np.hanning(int(L) + 2)[1:-1]


CALLABLES = {"rect": _rect, "blackman": np.blackman, "randwin": _randwin}


def win_args(win):
    """kwargs for SpectrumAnalyzer from a window spec."""
    if win["kind"] == "kaiser":
        return {"win": "kaiser", "psll": win["psll"]}
    if win["kind"] == "kaiser-func":
        if win.get("lib") == "scipy":
            from scipy.signal.windows import kaiser as sp_kaiser
            return {"win": sp_kaiser, "psll": win["psll"]}
        return {"win": np.kaiser, "psll": win["psll"]}
    if win["kind"] == "hann":
        return {"win": win.get("name", "hann")}
    return {"win": CALLABLES[win["name"]]}


def harness_window(win, L):
    if win["kind"] in ("kaiser", "kaiser-func"):
        return refmodel.window("kaiser", L, psll=win["psll"])
    if win["kind"] == "hann":
        return refmodel.window("hann", L)
    return refmodel.window("callable", L, func=CALLABLES[win["name"]])


def default_olap(win):
    if win["kind"] in ("kaiser", "kaiser-func"):
        return refmodel.kaiser_rov(refmodel.kaiser_alpha(win["psll"]))
    return 0.5


def random_window(rng):
    k = rng.random()
    if k < 0.45:
        return {"kind": "kaiser", "psll": float(rng.choice([40, 60, 90, 120, 160, 200,
                                                            round(rng.uniform(40, 200), 1)]))}
    if k < 0.55:
        return {"kind": "kaiser-func", "psll": float(rng.choice([70, 140, 200])),
                "lib": str(rng.choice(["numpy", "scipy"]))}
    if k < 0.8:
        return {"kind": "hann", "name": str(rng.choice(["hann", "hanning"]))}
    return {"kind": "callable", "name": str(rng.choice(list(CALLABLES)))}


# -----------------------------------------------------------------------------
# Analysis descriptors
# -----------------------------------------------------------------------------

def random_analysis(rng, nmax=20000, nmin=50, backends=("numba", "numpy", "auto"), cross_p=0.6,
                    allow_band=True):
    N = int(round(gen.loguniform(rng, nmin, nmax)))
    d = {
        "N": N,
        "fs": float(rng.choice([1.0, 2.0, 100.0, gen.loguniform(rng, 1e-2, 1e4)])),
        "rec": str(rng.choice(gen.RECORD_CLASSES)),
        "cross": bool(rng.random() < cross_p),
        "pair": str(rng.choice(gen.PAIR_CLASSES)),
        "sched": str(rng.choice(gen.SCHEDS)),
        "win": random_window(rng),
        "order": int(rng.choice([-1, 0, 1, 2])),
        "backend": str(rng.choice(list(backends))),
        "olap": "default" if rng.random() < 0.3 else float(rng.choice([0.0, 0.3, 0.5, 0.75, 0.9])),
        "Lmin": int(rng.choice([1, 1, 2, 16, max(1, N // 10)])),
        "bmin": float(rng.choice([1.0, 1.0, 2.0, 3.5])),
        "Jdes": int(rng.choice([5, 20, 60, 150])),
        "Kdes": int(rng.choice([1, 5, 30, 100])),
        "band": None,
        "verbose": bool(rng.random() < 0.15),
    }
    if allow_band and rng.random() < 0.25:
        d["band"] = "pending"
    return d


def build_data(desc, seedt):
    rng = gen.rng_for(*seedt, "data")
    x = gen.record(rng, desc["N"], desc["rec"])
    if desc["cross"]:
        y = gen.second_channel(rng, x, desc["pair"])
        return np.vstack([x, y])
    return x


def analyzer_kwargs(desc):
    kw = dict(olap=desc["olap"], bmin=desc["bmin"], Lmin=desc["Lmin"], Jdes=desc["Jdes"],
              Kdes=desc["Kdes"], order=desc["order"], scheduler=desc["sched"],
              backend=desc["backend"])
    kw.update(win_args(desc["win"]))
    if desc.get("verbose"):
        kw["verbose"] = True
    if desc.get("band") not in (None, "pending"):
        kw["band"] = tuple(desc["band"])
    return kw


def channels(data):
    if data.ndim == 2:
        return data[0], data[1]
    return data, None


# -----------------------------------------------------------------------------
# Reference check of a SpectrumResult, public fields only
# -----------------------------------------------------------------------------

def check_result(res, data, desc, rec, tag, max_bins=None, rng=None):
    """Compare every bin (or a random subset of max_bins) of `res` with the reference
    estimator evaluated on the plan the result itself reports."""
    x, y = channels(np.asarray(data, dtype=np.float64))
    fs = float(desc["fs"])
    f = np.asarray(res.f)
    Ls = np.asarray(res.L)
    nf = len(f)
    idx = np.arange(nf)
    if max_bins is not None and nf > max_bins:
        idx = np.sort((rng or np.random.default_rng(0)).choice(nf, size=max_bins, replace=False))
    XX, YY, XY, M2 = (np.asarray(res.XX), np.asarray(res.YY), np.asarray(res.XY),
                      np.asarray(res.M2))
    S12, S2 = np.asarray(res.S12), np.asarray(res.S2)
    wcache = {}
    ok = True
    for j in idx:
        L = int(Ls[j])
        st = np.asarray(res.D[j]).astype(np.int64)
        if L not in wcache:
            w = harness_window(desc["win"], L)
            wcache[L] = (w, float(np.sum(w)) ** 2, float(np.sum(w * w)))
        w, s12, s2 = wcache[L]
        N = x.shape[0]
        if st.size == 0 or st.min() < 0 or st.max() > N - L or L < 1:
            rec.violation(f"{tag}:segmentation-out-of-bounds",
                          f"bin {j}: reported starts/L outside the record (L={L}, N={N})")
            ok = False
            continue
        if int(np.asarray(res.K)[j]) != st.size or int(np.asarray(res.navg)[j]) != st.size:
            rec.violation(f"{tag}:K-ne-len-D", f"bin {j}: K/navg != number of starts")
            ok = False
        rec.count("bins_compared")
        if abs(S12[j] - s12) > 1e-12 * abs(s12) or abs(S2[j] - s2) > 1e-12 * abs(s2):
            rec.violation(f"{tag}:window-sums",
                          f"bin {j} (L={L}): S12={S12[j]!r} S2={S2[j]!r} but (sum w)^2={s12!r}, "
                          f"sum w^2={s2!r} for window {desc['win']}")
            ok = False
        om = 2 * math.pi * float(f[j]) / fs
        ref = refmodel.ref_stats(x, y, st, L, w, om, desc["order"])
        got = (XX[j], YY[j] if y is not None else XX[j], XY[j].real, XY[j].imag, M2[j])
        if y is None:
            # auto results store XY = XX (mu_r = MXX, mu_i = 0)
            pass
        bad, worst = refmodel.compare_stats(got, ref)
        rec.ratio(f"{tag}_err_over_budget", worst)
        for name, err, bound in bad:
            ok = False
            rec.violation(f"{tag}:{name}",
                          f"bin {j} f={f[j]:.6g} L={L} K={st.size}: {name} err {err:.3e} > budget "
                          f"{bound:.3e} (backend {desc['backend']}, order {desc['order']}, "
                          f"window {desc['win']})")
    return ok


PER_BIN_FIELDS = ["f", "r", "b", "L", "K", "navg", "O", "XX", "YY", "XY", "M2", "S2", "S12"]


def attempt(rec, fn, what="analysis"):
    """Run a library call.  ValueError = the configuration was rejected (plan validation:
    C02's business) -> blocked; any other exception on admissible input is a violation of
    whatever property is being checked (there is no result that could satisfy it)."""
    try:
        return fn()
    except ValueError as e:
        rec.blocked(f"{what} rejected: {str(e)[:70]}")
    except SystemExit as e:
        rec.violation("library-called-sys-exit", f"{what}: SystemExit({e.code})")
    except Exception as e:
        rec.violation(f"raises:{type(e).__name__}", f"{what} raised {type(e).__name__}: {e}")
    return None



def single_bin_request(rng, fs, N, Lmax=None):
    """One compute_single_bin request in the forms the API admits: frequency in the interior, at DC,
    at Nyquist or on a DFT bin of the segment; resolution given as L or as fres (integer and
    non-integer fs/fres, both rounding to the same L).  Returns (freq, kwargs, label)."""
    Lmax = int(N if Lmax is None else min(N, Lmax))
    L = int(rng.choice([min(Lmax, 8), min(Lmax, 48), min(Lmax, 300), int(rng.integers(1, Lmax + 1))]))
    L = max(L, 1)
    fk = str(rng.choice(["interior", "interior", "interior", "dc", "nyquist", "dft-bin"]))
    if fk == "interior":
        f = float(rng.uniform(0.02, 0.45)) * fs
    elif fk == "dc":
        f = 0.0
    elif fk == "nyquist":
        f = fs / 2
    else:
        f = fs * int(rng.integers(0, L // 2 + 1)) / L
    u = rng.random()
    if u < 0.25:
        kw, how = {"fres": fs / (L + float(rng.uniform(-0.4, 0.4)))}, "fres-fractional"
    elif u < 0.4:
        kw, how = {"fres": fs / L}, "fres"
    else:
        kw, how = {"L": L}, "L"
    return f, kw, f"{fk}/{how}"
