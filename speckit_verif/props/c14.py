"""C14 - results do not depend on thread scheduling or on call history."""
import hashlib
import os
import subprocess
import sys
import time

import numpy as np

from .. import api, gen, guard, refmodel
from .c20 import data_names, same

ID = "C14"
LEVEL = "exploration"
RULE = ("(schedules) per threading layer {workqueue, omp} in separate processes: analyses sized for "
        "many tiny parallel tasks (K up to 5e4 segments of L=16..64) and for few big ones, all four "
        "detrend orders, auto and cross, are run with numba.set_num_threads in {1,2,3,5,8,13,16} x "
        "set_parallel_chunksize in {0,1,3,64}, repeated, half of the repetitions with 16 busy-loop "
        "processes competing for the cores; every run must equal the single-thread run of the same "
        "process (1e-12; bitwise equality is recorded) and the reference model; a harness-side "
        "prange probe records get_thread_id per iteration so that the distinct iteration-to-thread "
        "distributions actually produced are counted.  (histories) random sequences of length "
        "5-30 over {plan, compute, compute_single_bin(f,L), compute_single_bin(f,fres)} on one "
        "analyzer: plan() must return the same object with unchanged content, every result must "
        "equal a fresh analyzer's; random sequences over {read attribute, get_measurement, "
        "to_dataframe, get_rms} on one result: every cached attribute keeps identity and content "
        "and equals the value on a fresh twin, whatever was read before; (round trips) an analysis, "
        "then 1-4 analyses differing in one respect (band, psll, overlap, Lmin, order, window, other "
        "data, a shorter record), then the first again with a new analyzer: same grid, "
        "segmentation and statistics.  Distinct by case descriptor.")
ASSUMPTIONS = [
    "a race needs the losing interleaving to occur: absence of a report is 'held on the schedules "
    "observed' (sensitivity measured: a hoisted shared scratch buffer is seen in 12/20 runs)",
    "concurrent calls from several Python threads are not generated (not quantified by the property; "
    "the workqueue layer aborts on concurrent entry by design)",
]
DECIDING_COUNTERS = ["schedule_runs[workqueue]", "schedule_runs[omp]", "analyzer_histories",
                     "numpy_backend_thread_settings",
                     "options_roundtrips",
                     "result_histories", "plan_identity_checks", "cached_attribute_checks",
                     "reference_checks"]
MIN_NONTRIVIAL = {"quick": 150, "thorough": 2500}
JOBS = {"quick": 6, "thorough": 8}
THREADS = [1, 2, 3, 5, 8, 13, 16]
CHUNKS = [0, 1, 3, 64]


def shards(tier, seed):
    out = []
    if tier == "quick":
        nwork, reps, combos, nh, budget = 8, 2, 8, 36, 60
    else:
        nwork, reps, combos, nh, budget = 16, 5, 28, 600, 500
    for layer in ("workqueue", "omp"):
        out.append({"name": f"sched-{layer}", "threads": 16, "timeout": budget * 4 + 400,
                    "env": {"NUMBA_THREADING_LAYER": layer},
                    "params": {"kind": "schedule", "layer": layer, "seed": seed, "nwork": nwork,
                               "reps": reps, "combos": combos, "budget_s": budget}})
    for i in range(4 if tier == "quick" else 8):
        out.append({"name": f"hist{i}", "threads": 2, "timeout": budget * 4 + 400,
                    "params": {"kind": "history", "seed": seed, "shard": i, "n": nh,
                               "budget_s": budget}})
    return out


def post_check(counters):
    if counters.get("thread_distribution_probes", 0) and counters.get("multi_thread_runs_observed", 0) == 0:
        return ["the thread-id probe never saw more than one worker thread"]
    return []


# -----------------------------------------------------------------------------
# schedule stress
# -----------------------------------------------------------------------------

def make_probe():
    import numba

    @numba.njit(parallel=True)
    def probe(K, out):
        for j in numba.prange(K):
            out[j] = numba.get_thread_id()

    return probe


def raw(res):
    return {k: np.asarray(getattr(res, k)).copy() for k in ("XX", "YY", "XY", "M2")}


def cmp_raw(a, b):
    bitwise = all(np.array_equal(a[k], b[k]) for k in a)
    worst = 0.0
    for k in a:
        mx = float(np.max(np.abs(a[k]))) if a[k].size else 0.0
        d = np.abs(a[k] - b[k])
        e = float(np.max(d / np.maximum(np.abs(a[k]), 1e-13 * max(mx, 1e-300)))) if d.size else 0.0
        worst = max(worst, e)
    return bitwise, worst


def schedule_shard(params, rec):
    import numba
    from speckit.analysis import SpectrumAnalyzer
    layer = params["layer"]
    rng = gen.rng_for(params["seed"], "sched", layer)
    probe = make_probe()
    t0 = time.time()
    burners = []
    actual_layer = None
    try:
        # every workload index (= kernel kind) runs its main shape and then a cheap few-segments
        # pass, so that each parallel kernel meets "one or two iterations per worker thread" on
        # both threading layers in every run; the main shapes rotate with the seed
        li = 0 if layer == "workqueue" else 1
        mains = ["many-tiny", "repeated-starts", "few-big", "plan", "many-tiny", "repeated-starts"]
        pairs = []
        for wi_ in range(params["nwork"]):
            pairs.append((wi_, mains[(wi_ * 5 + li * 3 + int(params["seed"])) % len(mains)]))
            pairs.append((wi_, "few-segments"))
        for wi, shape in pairs:
            if time.time() - t0 > params["budget_s"]:
                rec.note(f"time budget reached after {wi} workloads")
                break
            # every quick run covers all six parallel kernels (order class x auto/cross)
            kind = [(-1, False), (-1, True), (0, False), (0, True), (1, False), (2, True),
                    (2, False), (1, True)][wi % 8]
            order, cross = kind
            rec.distinct("kernels_stressed", f"order{order}/{'csd' if cross else 'auto'}")
            if shape == "few-segments":
                # only a handful of segments, densely overlapped: every worker thread owns one or
                # two iterations, and the second thread's first segment starts a few samples in
                L = int(rng.choice([64, 256, 1000]))
                olap = float(rng.choice([0.9, 0.95, 0.97, 0.985]))
                N = L + int(max(1, round((1 - olap) * L)) * int(rng.integers(1, 8)))
                rec.count("schedule_workloads_with_few_segments")
            elif shape == "repeated-starts":
                # segment shift below one sample: runs of identical start indices, so that
                # neighbouring iterations (and worker-block boundaries) see the same segment
                L = int(rng.choice([8, 16]))
                N = int(rng.choice([20000, 50000]))
                olap = float(rng.choice([0.9, 0.95, 0.97])) if L == 8 else float(rng.choice([0.95, 0.97]))
                rec.count("schedule_workloads_with_repeated_starts")
            elif shape == "many-tiny":
                L = int(rng.choice([16, 32, 64]))
                N = int(rng.choice([20000, 50000, 120000]))
                olap = float(rng.choice([0.5, 0.9, 0.97]))
            elif shape == "few-big":
                L = int(rng.choice([4096, 16384]))
                N = 10 * L
                olap = 0.5
            else:
                L, N, olap = None, int(rng.integers(3000, 30000)), 0.75
            x = gen.record(rng, N, str(rng.choice(["white", "walk", "offset1e6"])))
            data = np.vstack([x, gen.second_channel(rng, x, "mixed")]) if cross else x
            desc = {"kind": "schedule", "layer": layer, "w": wi, "shape": shape, "N": N, "L": L,
                    "cross": cross, "order": order, "olap": olap, "seed": params["seed"]}
            an = SpectrumAnalyzer(data, 1.0, order=order, olap=olap, backend="numba",
                                  win=str(rng.choice(["hann", "kaiser"])), psll=150, Jdes=60,
                                  Kdes=50)
            fq = float(rng.uniform(0.05, 0.45))

            def run():
                if L is None:
                    return an.compute()
                return an.compute_single_bin(fq, L=L)
            numba.set_num_threads(1)
            numba.set_parallel_chunksize(0)
            base_res = run()
            base = raw(base_res)
            if actual_layer is None:
                try:
                    actual_layer = numba.threading_layer()
                except Exception:
                    actual_layer = "unknown"
                rec.note(f"requested layer {layer}, active layer {actual_layer}")
                if actual_layer != layer:
                    rec.note(f"layer {layer} not available; runs counted under it nevertheless")
            # reference model: a race that corrupts every run identically is still caught
            if L is not None:
                w = refmodel.window("hann", L) if an.config["win_func"] is np.hanning else \
                    refmodel.window("kaiser", L, psll=150)
                xs, ys = api.channels(np.asarray(data, dtype=float))
                ref = refmodel.ref_stats(xs, ys, np.asarray(base_res.D[0]), L, w,
                                         2 * np.pi * fq, order)
                got = (base["XX"][0], base["YY"][0] if cross else base["XX"][0],
                       base["XY"][0].real, base["XY"][0].imag, base["M2"][0])
                bad, worst = refmodel.compare_stats(got, ref)
                rec.count("reference_checks")
                rec.ratio("single_thread_vs_reference", worst)
                for nm, err, bound in bad:
                    rec.violation("single-thread-vs-reference", f"{nm}: err {err:.3e} > budget "
                                                                f"{bound:.3e} ({desc})")
            Kseg = int(np.max(base_res.K))
            combos = [(int(rng.choice(THREADS[1:])), int(rng.choice(CHUNKS)))
                      for _ in range(params["combos"])]
            for rep in range(params["reps"]):
                loaded = rep % 2 == 1
                if loaded and not burners:
                    burners = [subprocess.Popen([sys.executable, "-c", "while True: pass"])
                               for _ in range(16)]
                if not loaded and burners:
                    for b in burners:
                        b.kill()
                    burners = []
                for (nt, ch) in combos:
                    d2 = dict(desc, threads=nt, chunk=ch, rep=rep, loaded=loaded)
                    rec.case(d2, nontrivial=True)
                    numba.set_num_threads(nt)
                    numba.set_parallel_chunksize(ch)
                    try:
                        got = raw(run())
                        # the thread-id probe runs under the same settings (chunk size is
                        # consumed by one parallel region, so set it again)
                        numba.set_parallel_chunksize(ch)
                        tid = np.empty(min(Kseg, 20000), dtype=np.int64)
                        probe(tid.shape[0], tid)
                    finally:
                        numba.set_parallel_chunksize(0)
                    rec.count(f"schedule_runs[{layer}]")
                    rec.count("thread_distribution_probes")
                    nthr = len(np.unique(tid))
                    if nthr > 1:
                        rec.count("multi_thread_runs_observed")
                    rec.distinct("thread_distributions",
                                 hashlib.sha1(tid.tobytes()).hexdigest()[:16])
                    rec.distinct("threads_used", int(nthr))
                    bitwise, worst = cmp_raw(base, got)
                    if not bitwise:
                        rec.count("not_bitwise_identical")
                    rec.ratio("schedule_diff_over_1e-12", worst / 1e-12)
                    if not (worst <= 1e-12):
                        rec.violation("schedule-dependence",
                                      f"layer {actual_layer}, {nt} threads, chunksize {ch}, rep "
                                      f"{rep} ({'loaded' if loaded else 'idle'}): statistics differ "
                                      f"from the single-thread run by {worst:.3e} (K={Kseg}, L={L}, "
                                      f"order {order}, cross={cross})")
            numba.set_num_threads(1)
        if layer == "workqueue":
            numpy_backend_threads(rec, params, rng)
    finally:
        for b in burners:
            b.kill()


def numpy_backend_threads(rec, params, rng):
    """The NumPy backend under every worker-thread setting: whatever use it makes of the thread
    count, a plan's result must not depend on it (plans of many different lengths)."""
    import numba
    from speckit.analysis import SpectrumAnalyzer
    rng = gen.rng_for(params["seed"], "numpy-threads")     # own stream: replayable on its own
    for Jd in [7, 13, 21, 29, 37, 45, 53, 61, 75, 89, 97, 110, 123, 150, 175, 200]:
        N = int(rng.integers(2000, 4000))
        cross = bool(rng.random() < 0.4)
        x = gen.record(rng, N, "white")
        data = np.vstack([x, gen.second_channel(rng, x, "mixed")]) if cross else x
        kw = dict(backend="numpy", Jdes=Jd, Kdes=int(rng.choice([3, 10])), order=int(rng.choice([-1, 0, 1])),
                  win="hann", olap=0.5)
        desc = {"kind": "numpy-threads", "seed": params["seed"], "N": N, "Jdes": Jd, "cross": cross,
                "layer": "workqueue"}
        rec.case(desc, nontrivial=True)
        try:
            numba.set_num_threads(1)
            base = raw(SpectrumAnalyzer(data, 1.0, **kw).compute())
            for nt in [2, 3, 5, 7, 8, 11, 13, 14, 15, 16]:
                if nt > numba.config.NUMBA_NUM_THREADS:
                    continue
                numba.set_num_threads(nt)
                got = raw(SpectrumAnalyzer(data, 1.0, **kw).compute())
                rec.count("numpy_backend_thread_settings")
                same_shape = all(base[k].shape == got[k].shape for k in base)
                bitwise, worst = cmp_raw(base, got) if same_shape else (False, float("inf"))
                if not (worst <= 1e-12):
                    rec.violation("schedule-dependence:numpy-backend",
                                  f"backend numpy, {nt} worker threads, plan of {base['XX'].shape[0]} "
                                  f"bins (N={N}, Jdes={Jd}): statistics differ from the one-thread "
                                  f"result by {worst:.3e}")
                    break
        except (ValueError, RuntimeError) as e:
            rec.blocked(f"rejected: {str(e)[:60]}")
        finally:
            numba.set_num_threads(1)


# -----------------------------------------------------------------------------
# call histories
# -----------------------------------------------------------------------------

def plan_fp(plan):
    h = hashlib.sha1()
    for k in sorted(plan):
        v = plan[k]
        if k == "D":
            for d in v:
                h.update(np.asarray(d).tobytes())
        elif isinstance(v, np.ndarray):
            h.update(v.tobytes())
        else:
            h.update(repr(v).encode())
    return h.hexdigest()


def analyzer_history(rec, seedt):
    from speckit.analysis import SpectrumAnalyzer
    rng = gen.rng_for(*seedt)
    N = int(rng.integers(200, 4000))
    cross = bool(rng.random() < 0.6)
    x = gen.record(rng, N, str(rng.choice(["white", "walk", "ar1"])))
    data = np.vstack([x, gen.second_channel(rng, x, "mixed")]) if cross else x
    kw = dict(order=int(rng.choice([-1, 0, 1, 2])), scheduler=str(rng.choice(gen.SCHEDS)),
              backend=str(rng.choice(["numba", "numpy"])), Jdes=int(rng.choice([8, 30])),
              Kdes=int(rng.choice([3, 20])), olap=float(rng.choice([0.0, 0.3, 0.5, 0.75])))
    kw.update(api.win_args(api.random_window(rng)))
    if kw["olap"] == 0.0:
        N = int(N // 60) * 60 or 60     # many segment lengths divide the record exactly
        data = data[..., :N] if N <= data.shape[-1] else data
        N = data.shape[-1]
    if rng.random() < 0.2:
        kw["band"] = (0.02 * 1.0, 0.3 * 1.0)  # scaled by fs below
    if rng.random() < 0.25 and kw["scheduler"] != "vectorized_ltf":
        # forced bin count with a REACHABLE target: the bin count an unforced plan with a Jdes
        # inside the search range produces
        try:
            probe_kw = dict(kw, Jdes=int(rng.choice([120, 200, 400])))
            kw.update(force_target_nf=True,
                      Jdes=int(len(SpectrumAnalyzer(data, 1.0, **probe_kw).plan()["f"])))
        except Exception:
            pass
    fs = float(rng.choice([1.0, 50.0]))
    if "band" in kw:
        kw["band"] = (kw["band"][0] * fs, kw["band"][1] * fs)
    nops = int(rng.integers(5, 31))
    ops = []
    for _ in range(nops):
        o = str(rng.choice(["plan", "compute", "single-L", "single-fres", "single-L"]))
        if o == "single-L":
            Lq = int(rng.integers(1, N + 1))
            if rng.random() < 0.4:
                Lq = max(1, N // int(rng.choice([1, 2, 3, 4, 5, 6, 10, 12])))   # divides N
            elif rng.random() < 0.5:
                Lq = -1   # resolved below: a segment length of the analyzer's own plan
            ops.append((o, float(rng.uniform(0, 0.5)) * fs, Lq))
        elif o == "single-fres":
            Lr = int(rng.integers(2, N + 1))
            ops.append((o, float(rng.uniform(0, 0.5)) * fs, fs / Lr * float(rng.choice([1.0, 1.002]))))
        else:
            ops.append((o,))
    desc = {"kind": "analyzer-history", "seed": list(seedt), "N": N, "cross": cross,
            "nops": nops, "ops": [o[0] for o in ops][:12], "backend": kw["backend"],
            "sched": kw["scheduler"]}
    rec.case(desc, nontrivial=True)

    def fresh():
        return SpectrumAnalyzer(data, fs, **kw)
    an = api.attempt(rec, fresh, "constructing the analyzer")
    if an is None:
        return
    if any(o[0] == "single-L" and o[2] == -1 for o in ops):
        try:
            plan_Ls = np.unique(np.asarray(fresh().plan()["L"]))
        except Exception:
            plan_Ls = np.array([max(1, N // 3)])
        ops = [(o[0], o[1], int(rng.choice(plan_Ls))) if (o[0] == "single-L" and o[2] == -1) else o
               for o in ops]
    fp_data = guard.fingerprint(data)
    first_plan = None
    first_fp = None
    ref_compute = None
    done = []
    for op in ops:
        done.append(op[0])
        try:
            if op[0] == "plan":
                p = an.plan()
                rec.count("plan_identity_checks")
                if first_plan is None:
                    first_plan, first_fp = p, plan_fp(p)
                elif p is not first_plan:
                    rec.violation("plan-cache-identity", f"plan() returned a different object "
                                                         f"after {done[-6:]}")
            elif op[0] == "compute":
                r = an.compute()
                if ref_compute is None:
                    ref_compute = raw(api.attempt(rec, lambda: fresh().compute(), "fresh compute"))
                bitwise, worst = cmp_raw(ref_compute, raw(r))
                if not (worst <= 1e-12) or raw(r)["XX"].shape != ref_compute["XX"].shape:
                    rec.violation("compute-depends-on-history",
                                  f"compute() after {done[-6:]} differs from a fresh analyzer's "
                                  f"result by {worst:.3e}")
                if first_plan is None:
                    first_plan, first_fp = an.plan(), plan_fp(an.plan())
            else:
                kwargs = {"L": op[2]} if op[0] == "single-L" else {"fres": op[2]}
                r = an.compute_single_bin(op[1], **kwargs)
                rf = fresh().compute_single_bin(op[1], **kwargs)
                bitwise, worst = cmp_raw(raw(rf), raw(r))
                same_seg = np.array_equal(np.asarray(r.D[0]), np.asarray(rf.D[0])) and \
                    int(r.L[0]) == int(rf.L[0])
                if not (worst <= 1e-12) or not same_seg:
                    rec.violation("single-bin-depends-on-history",
                                  f"compute_single_bin{op[1:]} after {done[-6:]} differs from a "
                                  f"fresh analyzer's result by {worst:.3e} (same segmentation: "
                                  f"{same_seg})")
        except ValueError as e:
            rec.blocked(f"rejected: {str(e)[:60]}")
            return
        except RuntimeError as e:
            if kw.get("force_target_nf") and "forced number" in str(e):
                rec.count("force_nf_raised")  # an error is an admissible outcome (C04)
                return
            rec.violation("raises:RuntimeError", f"{op[0]} after {done[-6:]} raised {e}")
            return
        except Exception as e:
            rec.violation(f"raises:{type(e).__name__}", f"{op[0]} after {done[-6:]} raised "
                                                        f"{type(e).__name__}: {e}")
            return
        if first_plan is not None:
            rec.count("plan_identity_checks")
            if an._plan_cache is not None and plan_fp(an.plan()) != first_fp:
                rec.violation("plan-cache-mutated", f"the cached plan's content changed after "
                                                    f"{done[-6:]}")
                return
    rec.count("analyzer_histories")
    if guard.fingerprint(data) != fp_data:
        rec.violation("input-modified-by-history", "the caller's data changed during the history")
    # the history's plan equals a fresh analyzer's plan
    if first_plan is not None:
        pf = api.attempt(rec, lambda: fresh().plan(), "fresh plan")
        if pf is not None and plan_fp(pf) != first_fp:
            rec.violation("plan-depends-on-history", "the plan differs from a fresh analyzer's plan")


def options_roundtrip(rec, seedt):
    """Process-level history: an analysis A, then one to four OTHER analyses that differ from it in
    one respect (a band, a slightly different psll, another overlap / Lmin / order / window, other
    data of the same length, the record one sample shorter), then A again with a new analyzer: the
    second A must reproduce the first - raw statistics, bin grid and segmentation."""
    from speckit.analysis import SpectrumAnalyzer
    rng = gen.rng_for(*seedt)
    N = int(rng.integers(300, 3000))
    cross = bool(rng.random() < 0.5)
    x = gen.record(rng, N, str(rng.choice(["white", "walk", "ar1"])))
    data = np.vstack([x, gen.second_channel(rng, x, "mixed")]) if cross else x
    win = api.random_window(rng)
    kw = dict(order=int(rng.choice([-1, 0, 1, 2])), scheduler=str(rng.choice(gen.SCHEDS)),
              backend=str(rng.choice(["numba", "numpy"])), Jdes=int(rng.choice([8, 30, 80])),
              Kdes=int(rng.choice([3, 20])),
              olap=("default" if rng.random() < 0.4 else float(rng.choice([0.0, 0.3, 0.5, 0.75]))))
    kw.update(api.win_args(win))
    fs = float(rng.choice([1.0, 50.0]))
    desc = {"kind": "options-roundtrip", "seed": list(seedt), "N": N, "cross": cross,
            "backend": kw["backend"], "sched": kw["scheduler"], "win": win}
    rec.case(desc, nontrivial=True)

    def run(data_, kw_):
        r = SpectrumAnalyzer(data_, fs, **kw_).compute()
        return r, raw(r), (np.asarray(r.f).copy(), np.asarray(r.L).copy(),
                           [np.asarray(d).copy() for d in r.D])
    try:
        r0, raw0, grid0 = run(data, kw)
    except (ValueError, RuntimeError) as e:
        rec.blocked(f"rejected: {str(e)[:60]}")
        return
    f0 = grid0[0]
    kinds = []
    for _ in range(int(rng.integers(1, 5))):
        v = str(rng.choice(["band", "band", "psll", "olap", "Lmin", "order", "win", "data", "shorter"]))
        kv, dv = dict(kw), data
        if v == "band" and len(f0) >= 3:
            a = int(rng.integers(0, len(f0)))
            b = int(rng.integers(a, len(f0)))
            kv["band"] = (float(f0[a]), float(f0[b]))
        elif v == "psll" and kw.get("win") == "kaiser" and "psll" in kw:
            kv["psll"] = kw["psll"] + float(rng.choice([1.0, -1.0, 0.3, 0.01]))
        elif v == "olap":
            kv["olap"] = float(rng.choice([0.0, 0.25, 0.6, 0.9]))
        elif v == "Lmin":
            kv["Lmin"] = int(rng.integers(2, max(3, N // 4)))
        elif v == "order":
            kv["order"] = int((kw["order"] + 2) % 4 - 1)
        elif v == "win":
            kv.update(api.win_args(api.random_window(rng)))
        elif v == "data":
            x2 = gen.record(rng, N, "white")
            dv = np.vstack([x2, gen.second_channel(rng, x2, "independent")]) if cross else x2
        elif v == "shorter":
            dv = np.ascontiguousarray(data[..., :N - int(rng.integers(1, 8))])
        else:
            continue
        kinds.append(v)
        try:
            run(dv, kv)
        except (ValueError, RuntimeError):
            pass
        except Exception as e:
            rec.violation(f"raises:{type(e).__name__}", f"variant '{v}' after the base analysis: "
                                                        f"{type(e).__name__}: {e}")
            return
    try:
        r1, raw1, grid1 = run(data, kw)
    except Exception as e:
        rec.violation("options-roundtrip-raises", f"the base analysis repeated after {kinds} "
                                                  f"raised {type(e).__name__}: {e}")
        return
    rec.count("options_roundtrips")
    rec.distinct("roundtrip_variants", "+".join(sorted(set(kinds))))
    same_grid = (grid0[0].shape == grid1[0].shape and np.array_equal(grid0[0], grid1[0])
                 and np.array_equal(grid0[1], grid1[1])
                 and all(np.array_equal(a, b) for a, b in zip(grid0[2], grid1[2])))
    if not same_grid:
        rec.violation("analysis-depends-on-earlier-analyses",
                      f"after other analyses ({kinds}) the same options and data give "
                      f"{len(grid1[0])} bins / another segmentation (first time: {len(grid0[0])} bins)")
        return
    bitwise, worst = cmp_raw(raw0, raw1)
    if not (worst <= 1e-12):
        rec.violation("analysis-depends-on-earlier-analyses",
                      f"after other analyses ({kinds}) the same options and data give statistics "
                      f"that differ by {worst:.3e}")


def result_history(rec, seedt):
    from speckit.analysis import SpectrumAnalyzer
    rng = gen.rng_for(*seedt)
    N = int(rng.integers(200, 3000))
    cross = bool(rng.random() < 0.65)
    x = gen.record(rng, N, str(rng.choice(["white", "walk", "ar1", "sine+noise"])))
    data = np.vstack([x, gen.second_channel(rng, x, "mixed")]) if cross else x
    kw = dict(order=int(rng.choice([-1, 0, 1, 2])), scheduler=str(rng.choice(gen.SCHEDS)),
              Jdes=int(rng.choice([8, 30])), Kdes=int(rng.choice([3, 20])), olap=0.5)
    kw.update(api.win_args(api.random_window(rng)))
    single = rng.random() < 0.25
    desc = {"kind": "result-history", "seed": list(seedt), "N": N, "cross": cross,
            "single": bool(single)}
    rec.case(desc, nontrivial=True)

    def fresh():
        an = SpectrumAnalyzer(data, 1.0, **kw)
        return an.compute_single_bin(0.13, L=min(N, 96)) if single else an.compute()
    twin = api.attempt(rec, fresh, "building the result")
    if twin is None:
        return
    names = data_names(twin)
    ref = {nm: getattr(twin, nm) for nm in names}
    res = fresh()
    seen = {}
    hist = []
    for _ in range(int(rng.integers(8, 40))):
        o = str(rng.choice(["read", "read", "read", "measure", "dataframe", "rms", "reread"]))
        try:
            if o == "read":
                nm = str(rng.choice(names))
                hist.append(nm)
                v = getattr(res, nm)
                if not same(ref[nm], v):
                    rec.violation("attribute-depends-on-access-order",
                                  f"'{nm}' read after {hist[-6:-1]} differs from its value on a "
                                  f"fresh result")
                    return
                if nm not in seen and isinstance(v, np.ndarray):
                    seen[nm] = (v, guard.fingerprint(v))
            elif o == "reread" and seen:
                nm = str(rng.choice(list(seen)))
                hist.append("re:" + nm)
                v = getattr(res, nm)
                rec.count("cached_attribute_checks")
                if v is not seen[nm][0] and nm not in res._data:
                    rec.violation("cached-attribute-identity", f"'{nm}' returned a different "
                                                               f"object on a second read")
            elif o == "measure":
                hist.append("get_measurement")
                res.get_measurement(float(res.f[0]), str(rng.choice(["Gxx", "ENBW"])))
            elif o == "dataframe":
                hist.append("to_dataframe")
                res.to_dataframe()
            elif o == "rms" and not cross:
                hist.append("get_rms")
                res.get_rms()
        except Exception as e:
            rec.violation(f"raises:{type(e).__name__}", f"{o} after {hist[-6:]} raised "
                                                        f"{type(e).__name__}: {e}")
            return
        for nm, (obj, fp) in seen.items():
            rec.count("cached_attribute_checks")
            if guard.fingerprint(obj) != fp:
                rec.violation("cached-attribute-mutated",
                              f"the array returned for '{nm}' changed content after {hist[-4:]}")
                return
    rec.count("result_histories")
    for nm in names:
        if not same(ref[nm], getattr(res, nm)):
            rec.violation("attribute-depends-on-access-order",
                          f"after the history {hist[-8:]}, '{nm}' differs from a fresh result's")
            return


def run_shard(params, rec):
    if params["kind"] == "schedule":
        return schedule_shard(params, rec)
    t0 = time.time()
    for i in range(params["n"]):
        if time.time() - t0 > params["budget_s"]:
            rec.note(f"time budget reached after {i}")
            break
        analyzer_history(rec, [params["seed"], params["shard"], "an", i])
        result_history(rec, [params["seed"], params["shard"], "res", i])
        options_roundtrip(rec, [params["seed"], params["shard"], "rt", i])


def replay(case, rec):
    k = case["kind"]
    if k == "analyzer-history":
        analyzer_history(rec, case["seed"])
    elif k == "result-history":
        result_history(rec, case["seed"])
    elif k == "numpy-threads":
        numpy_backend_threads(rec, {"seed": case["seed"]}, None)
    elif k == "options-roundtrip":
        options_roundtrip(rec, case["seed"])
    else:
        schedule_shard({"layer": case["layer"], "seed": case["seed"], "nwork": case["w"] + 1,
                        "reps": 2, "combos": 10, "budget_s": 600}, rec)
