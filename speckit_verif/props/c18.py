"""C18 - synthesised noise has the prescribed spectrum."""
import math
import time

import numpy as np

from .. import gen

ID = "C18"
LEVEL = "exploration"
RULE = ("(shaping filter) for alpha_noise / pink_noise instances over alpha in {0.01,0.5,1,1.5,2,U}, "
        "fs log-uniform [0.1,1e4], fmax in (0, fs/2], fmax/fmin in [4,1e6]: |H(f)|^2 (freqz on the "
        "instance's own coefficient arrays) * scale^2 * rms^2/fs * f^alpha, in dB, within +-1.5 dB "
        "on [2*fmin_eff, fmax_eff/2] and within +-(3.02*alpha/2+0.6) dB on [fmin_eff, fmax_eff]; "
        "(white) sample variance of 4e5 samples within 1.5 % of psd*fs; (fftnoise) output real, "
        "|FFT(x)| equals the prescribed magnitudes for random complex spectra of length "
        "{2,3,4,5,8,9,64,65,1000,1001,random} (odd and even), Hermitian symmetric, DC/Nyquist "
        "real, input not modified; (band_limited_noise) |FFT| = 1 in band and < 1e-12 out of band "
        "incl. min_freq=0, max_freq=Nyquist and empty bands.  Distinct by case descriptor.")
ASSUMPTIONS = [
    "'about 1 dB between the corners' made precise as in DESIGN C18 (measured <= 1.15 dB inner)",
    "the generator's private coefficient arrays (_a_coeffs, _b_coeffs, _scaling) are read to "
    "evaluate its state analytically; a sampled-output PSD cross-check backs this on a few cases",
]
DECIDING_COUNTERS = ["filters_checked", "variation_histories", "white_checked", "fft_syntheses",
                     "band_cases",
                     "sampled_psd_checks"]
MIN_NONTRIVIAL = {"quick": 500, "thorough": 10000}
JOBS = {"quick": 8, "thorough": 16}


def shards(tier, seed):
    if tier == "quick":
        n_sh, n, budget = 8, 190, 40
    else:
        n_sh, n, budget = 16, 30000, 300
    return [{"name": f"sp{i}", "threads": 1, "timeout": budget * 4 + 300,
             "params": {"seed": seed, "shard": i, "n": n, "budget_s": budget}}
            for i in range(n_sh)]


def filter_case(rec, seedt):
    from scipy import signal
    from speckit import noise
    rng = gen.rng_for(*seedt)
    alpha = float(rng.choice([0.01, 0.5, 1.0, 1.5, 2.0, rng.uniform(0.01, 2.0)]))
    fs = gen.loguniform(rng, 0.1, 1e4)
    fmax = fs / 2 * float(rng.choice([1.0, 1.0, 0.5, rng.uniform(0.01, 1.0)]))
    ratio = gen.loguniform(rng, 4, 1e6) if rng.random() < 0.85 else \
        float(rng.choice([1.05, 1.3, 1.6, 1.7, 2.0, 3.0]))     # narrow bands: one to three sections
    fmin = fmax / ratio
    pink = bool(rng.random() < 0.15)
    prev = getattr(filter_case, "prev", None)
    vary = None
    if prev is not None and seedt[-1] % 3 == 2:
        # call history: the previous generator's parameters with ONE of them changed - anything
        # the class remembers about an earlier design under an incomplete key is exposed
        vary = str(rng.choice(["fs", "fs", "alpha", "fmin", "fmax"]))
        a0, fs0, fmin0, fmax0, pink0 = prev
        alpha, fs, fmin, fmax, pink = a0, fs0, fmin0, fmax0, pink0
        if vary == "fs":
            fs = fs0 * float(rng.choice([2.0, 10.0, 3.7, 100.0]))      # fmax <= fs/2 stays true
        elif vary == "alpha" and not pink0:
            alpha = float(rng.choice([0.01, 0.5, 1.0, 1.5, 2.0]))
        elif vary == "fmin":
            fmin = fmin0 * float(rng.choice([0.5, 0.1, 0.9]))
        else:
            fmax = fmax0 * float(rng.choice([0.5, 0.25]))
            if fmax / fmin < 4:
                fmin = fmax / 8
    filter_case.prev = (alpha, fs, fmin, fmax, pink)
    desc = {"kind": "filter", "seed": list(seedt), "alpha": 1.0 if pink else alpha, "fs": fs,
            "fmin": fmin, "fmax": fmax, "pink": pink, "varied": vary}
    if vary:
        rec.count("variation_histories")
    rec.case(desc, nontrivial=True)
    try:
        g = noise.pink_noise(fs, fmin, fmax, init_filter=False, seed=1) if pink else \
            noise.alpha_noise(fs, fmin, fmax, alpha, init_filter=False, seed=1)
    except Exception as e:
        rec.violation("generator-raises", f"{type(e).__name__}: {e} for {desc}")
        return
    if pink:
        alpha = 1.0
    rec.count("filters_checked")
    a, b = np.asarray(g._a_coeffs), np.asarray(g._b_coeffs)
    fe_lo, fe_hi = float(g.fmin), float(g.fmax)
    f = np.exp(np.linspace(math.log(fe_lo), math.log(min(fe_hi, fs / 2 * 0.999999)), 240))
    H = np.ones(len(f), dtype=complex)
    for i in range(a.shape[0]):
        _, h = signal.freqz(a[i], b[i], worN=f, fs=fs)
        H *= h
    rms2 = float(g._whitenoise.rms) ** 2
    dens = np.abs(H) ** 2 * float(g._scaling) ** 2 * rms2 / fs
    dev_db = 10 * np.log10(dens * f ** alpha)
    inner = (f >= 2 * fe_lo) & (f <= fe_hi / 2)
    lim_full = 3.02 * alpha / 2 + 0.6
    if np.any(inner):
        w = float(np.max(np.abs(dev_db[inner])))
        rec.ratio("inner_dev_over_1.5dB", w / 1.5)
        if w > 1.5:
            j = int(np.nonzero(inner)[0][int(np.argmax(np.abs(dev_db[inner])))])
            rec.violation("spectrum-inner-range",
                          f"alpha={alpha:.3f} fs={fs:.4g} fmin={fmin:.4g} fmax={fmax:.4g}: density "
                          f"x f^alpha = {dev_db[j]:+.2f} dB at f={f[j]:.4g} (allowed +-1.5 dB on "
                          f"[2*{fe_lo:.4g}, {fe_hi:.4g}/2])")
    w = float(np.max(np.abs(dev_db)))
    rec.ratio("full_dev_over_corner_bound", w / lim_full)
    if w > lim_full:
        j = int(np.argmax(np.abs(dev_db)))
        rec.violation("spectrum-full-range",
                      f"alpha={alpha:.3f} fs={fs:.4g}: density x f^alpha = {dev_db[j]:+.2f} dB at "
                      f"f={f[j]:.4g}, bound +-{lim_full:.2f} dB on [{fe_lo:.4g}, {fe_hi:.4g}]")
    if not (fe_lo < fe_hi <= fs / 2 * (1 + 1e-9)):
        rec.violation("effective-corners", f"effective corners fmin={fe_lo}, fmax={fe_hi}, fs={fs}")


def sampled_case(rec, seedt):
    """Cross-check of the analytic evaluation: the PSD of actual output samples at mid-band."""
    from scipy import signal
    from speckit import noise
    rng = gen.rng_for(*seedt)
    alpha = float(rng.choice([0.5, 1.0, 2.0]))
    fs = 100.0
    g = noise.alpha_noise(fs, 0.05, 50.0, alpha, init_filter=True, seed=int(rng.integers(1, 10 ** 6)))
    desc = {"kind": "sampled", "seed": list(seedt), "alpha": alpha}
    rec.case(desc, nontrivial=True)
    x = g.get_series(400000)
    f, p = signal.welch(x, fs=fs, nperseg=4096, return_onesided=False, scaling="density")
    rec.count("sampled_psd_checks")
    sel = (f > 1.0) & (f < 10.0)
    dev = 10 * np.log10(np.mean(p[sel] * f[sel] ** alpha))
    rec.ratio("sampled_dev_over_1.5dB", abs(dev) / 1.5)
    if abs(dev) > 1.5:
        rec.violation("sampled-spectrum", f"alpha={alpha}: two-sided PSD of 4e5 output samples x "
                                          f"f^alpha averages {dev:+.2f} dB over 1-10 Hz")


def white_case(rec, seedt):
    from speckit import noise
    rng = gen.rng_for(*seedt)
    fs = gen.loguniform(rng, 0.1, 1e4)
    psd = 10 ** rng.uniform(-3, 3)
    if rng.random() < 0.3:
        psd = psd * 4.0 ** int(rng.choice([-200, -60, -20, 20, 60, 200]))   # other units
    desc = {"kind": "white", "seed": list(seedt), "fs": fs, "psd": psd}
    rec.case(desc, nontrivial=True)
    g = noise.white_noise(fs, psd=psd, seed=int(rng.integers(1, 10 ** 6)))
    x = g.get_series(400000)
    rec.count("white_checked")
    r = float(np.var(x)) / (psd * fs)
    rec.ratio("white_var_err_over_1.5pct", abs(r - 1) / 0.015)
    if abs(r - 1) > 0.015:
        rec.violation("white-variance", f"var/(psd*fs) = {r:.4f} (fs={fs:.4g}, psd={psd:.4g})")
    if abs(float(np.mean(x))) > 6 * math.sqrt(psd * fs / 400000):
        rec.violation("white-mean", "white noise mean is not zero within 6 sigma")


def fft_case(rec, seedt):
    from speckit import noise
    rng = gen.rng_for(*seedt)
    N = int(rng.choice([2, 3, 4, 5, 8, 9, 64, 65, 1000, 1001, int(rng.integers(2, 3000)),
                        4096, 4097, 16385, 65536, 65537]))
    kind = str(rng.choice(["complex", "real-mag", "one-sided", "ones", "positive-half-masked",
                           "sparse"]))
    if kind == "complex":
        F = rng.standard_normal(N) + 1j * rng.standard_normal(N)
    elif kind in ("positive-half-masked", "sparse"):
        # exact zeros among the positive-frequency bins while the (ignored) negative half of the
        # template is not zero there: a flat or measured template with only its positive half
        # cut to a band, or a sparse line spectrum
        F = (rng.uniform(0.5, 2, size=N) * np.exp(1j * rng.uniform(0, 6.28, size=N))).astype(complex)
        Np_ = (N - 1) // 2
        if Np_ >= 1:
            if kind == "sparse":
                keep = rng.random(Np_) < 0.2
            else:
                a_, b_ = sorted(int(v) for v in rng.integers(0, Np_ + 1, size=2))
                keep = np.zeros(Np_, dtype=bool)
                keep[a_:b_] = True
            F[1:Np_ + 1][~keep] = 0.0
    elif kind == "real-mag":
        F = rng.uniform(0, 5, size=N).astype(complex)
    elif kind == "one-sided":
        F = np.zeros(N, dtype=complex)
        F[: N // 2 + 1] = rng.uniform(0.5, 2, size=N // 2 + 1)
    else:
        F = np.ones(N, dtype=complex)
    desc = {"kind": "fft", "seed": list(seedt), "N": N, "spec": kind}
    rec.case(desc, nontrivial=True)
    F0 = F.copy()
    try:
        x = noise.fftnoise(F, rng=np.random.default_rng(int(rng.integers(1, 10 ** 6))))
    except Exception as e:
        rec.violation("fftnoise-raises", f"{type(e).__name__}: {e} (N={N})")
        return
    rec.count("fft_syntheses")
    if not np.array_equal(F, F0):
        rec.violation("fftnoise-modifies-input", "fftnoise wrote to the caller's spectrum")
    if np.iscomplexobj(x) or x.shape != (N,):
        rec.violation("fftnoise-not-real", f"output dtype {x.dtype}, shape {x.shape}")
        return
    X = np.fft.fft(x)
    # prescribed magnitudes: positive-frequency bins keep |F[k]|, the mirror takes them over,
    # DC and Nyquist keep |Re F|
    Np = (N - 1) // 2
    exp = np.empty(N)
    exp[0] = abs(F0[0].real)
    exp[1:Np + 1] = np.abs(F0[1:Np + 1])
    exp[N - Np:] = np.abs(F0[1:Np + 1])[::-1]
    if N % 2 == 0:
        exp[N // 2] = abs(F0[N // 2].real)
    mx = float(np.max(exp)) or 1.0
    err = float(np.max(np.abs(np.abs(X) - exp)))
    rec.ratio("fft_mag_err_over_1e-12", err / (1e-12 * mx))
    if err > 1e-12 * mx:
        k = int(np.argmax(np.abs(np.abs(X) - exp)))
        rec.violation("fftnoise-magnitudes",
                      f"N={N} ({'odd' if N % 2 else 'even'}), {kind} spectrum: |FFT(x)[{k}]|="
                      f"{abs(X[k])!r} but the prescribed magnitude is {exp[k]!r}")
    # the full spectrum of a real series is Hermitian; imaginary residue of the ifft ~ 0
    if np.max(np.abs(X[1:] - np.conj(X[1:][::-1]))) > 1e-9 * mx:
        rec.violation("fftnoise-hermitian", "FFT of the output is not Hermitian")


def band_case(rec, seedt):
    from speckit import noise
    rng = gen.rng_for(*seedt)
    N = int(rng.choice([2, 3, 16, 17, 256, 1001, int(rng.integers(2, 4000))]))
    sr = float(rng.choice([1.0, 44.1, 1000.0]))
    nyq = sr / 2
    kind = str(rng.choice(["interior", "from-zero", "to-nyquist", "full", "empty", "narrow",
                           "on-bins", "on-bins", "one-bin"]))
    if kind in ("on-bins", "one-bin"):
        # band edges that ARE grid frequencies (taken from the FFT grid itself, so that they are
        # inside the band by any reading), on grids whose spacing is not a binary fraction
        N = int(rng.choice([10, 100, 300, 1000, 3000, 2 * int(rng.integers(5, 2000)),
                            2 * int(rng.integers(5, 2000)) + 1]))
        sr = float(rng.choice([1.0, 0.3, 7.0, 44.1, 1000.0, 48000.0]))
        nyq = sr / 2
        grid = np.fft.rfftfreq(N, d=1.0 / sr)
        k1, k2 = sorted(int(k) for k in rng.integers(0, len(grid), size=2))
        if kind == "one-bin":
            k2 = k1
        # (the last grid value of an even-length grid can exceed fs/2 by one rounding: requests
        # above Nyquist are rejected by design, so the edges are capped at fs/2)
        lo, hi = min(float(grid[k1]), nyq), min(float(grid[k2]), nyq)
    elif kind == "interior":
        lo, hi = sorted(rng.uniform(0, nyq, size=2))
    elif kind == "from-zero":
        lo, hi = 0.0, float(rng.uniform(0, nyq))
    elif kind == "to-nyquist":
        lo, hi = float(rng.uniform(0, nyq)), nyq
    elif kind == "full":
        lo, hi = 0.0, nyq
    elif kind == "empty":
        df = sr / N
        lo = (int(rng.integers(0, max(1, N // 2))) + 0.3) * df
        hi = lo + 0.2 * df
        if hi > nyq:
            lo, hi = 0.3 * df, 0.5 * df
    else:
        c = float(rng.uniform(0, nyq))
        lo, hi = c, c
    desc = {"kind": "band", "seed": list(seedt), "N": N, "sr": sr, "band": [float(lo), float(hi)],
            "bkind": kind}
    rec.case(desc, nontrivial=True)
    try:
        x = noise.band_limited_noise(float(lo), float(hi), samples=N, samplerate=sr,
                                     rng=np.random.default_rng(int(rng.integers(1, 10 ** 6))))
    except Exception as e:
        rec.violation("band_limited_noise-raises", f"{type(e).__name__}: {e} for {desc}")
        return
    rec.count("band_cases")
    if kind in ("on-bins", "one-bin"):
        rec.count("band_cases_with_edges_on_grid_frequencies")
    if np.iscomplexobj(x) or x.shape != (N,):
        rec.violation("band-noise-not-real", f"dtype {x.dtype}, shape {x.shape}")
        return
    X = np.abs(np.fft.fft(x))
    fr = np.abs(np.fft.fftfreq(N, d=1.0 / sr))
    inb = (fr >= lo) & (fr <= hi)
    if np.any(X[~inb] > 1e-12):
        k = int(np.argmax(np.where(~inb, X, 0)))
        rec.violation("band-noise-out-of-band-power", f"|FFT|={X[k]:.3e} at {fr[k]:.5g} Hz "
                                                      f"outside [{lo:.5g},{hi:.5g}] (N={N})")
    if np.any(np.abs(X[inb] - 1) > 1e-9):
        k = int(np.argmax(np.where(inb, np.abs(X - 1), 0)))
        rec.violation("band-noise-in-band-magnitude", f"|FFT|={X[k]!r} at in-band {fr[k]:.5g} Hz "
                                                      f"(expected 1; N={N}, band [{lo:.5g},{hi:.5g}])")


def run_shard(params, rec):
    t0 = time.time()
    seed, sh = params["seed"], params["shard"]
    for i in range(params["n"]):
        if time.time() - t0 > params["budget_s"]:
            rec.note(f"time budget reached after {i}")
            break
        filter_case(rec, [seed, sh, "filt", i])
        if i % 4 == 0:
            fft_case(rec, [seed, sh, "fft", i])
            band_case(rec, [seed, sh, "band", i])
        if i % 60 == 0:
            white_case(rec, [seed, sh, "white", i])
        if i % 90 == 0:
            sampled_case(rec, [seed, sh, "sampled", i])


def replay(case, rec):
    if case.get("kind") == "filter" and case.get("varied"):
        # reproduce the history: the case it was derived from runs first
        st = list(case["seed"])
        st[-1] -= 1
        filter_case.prev = None
        filter_case(rec, st)
    {"filter": filter_case, "sampled": sampled_case, "white": white_case, "fft": fft_case,
     "band": band_case}[case["kind"]](rec, case["seed"])
