"""C05 - a computed spectrum is the reference estimator applied to its own plan."""
import time

import numpy as np

from .. import api, gen, refmodel
from ..probes import KernelProbe

ID = "C05"
LEVEL = "exploration"
RULE = ("End-to-end differential monitor on public fields only: seeded analyses (record class x N "
        "x scheduler x window {kaiser psll 40..200, hann, callables} x order x auto/cross x "
        "backend {numba, numpy; cuda via simulator} x olap/Lmin/bmin/Jdes/Kdes classes); every "
        "bin of compute() is compared with refmodel.ref_stats at f[j], L[j], D[j] of that result "
        "with a window built by the harness, S12/S2 with (sum w)^2 / sum w^2; single-bin requests "
        "(freq, L) and (freq, fres) are checked for the segmentation they report; a band-"
        "restricted analysis must equal the in-band bins of the unrestricted one in every per-bin "
        "field.  A dispatcher probe records len(w)=L, Q.shape, omega=2*pi*f/fs and starts==D[j] "
        "for every kernel call.  Distinct by case descriptor; non-trivial: nf>=5, two distinct L, "
        "some K>=2.")
ASSUMPTIONS = [
    "rounding budget of DESIGN section 3",
    "Kaiser reference: np.kaiser(L+1, pi*alpha(psll))[:-1] with the harness's own alpha(psll) cubic",
    "cuda backend through NUMBA_ENABLE_CUDASIM=1 (small N only)",
]
DECIDING_COUNTERS = ["bins_compared", "single_bin_compared", "band_pairs", "band_histories", "custom_plan_results"]  # probe events: evidence only
MIN_NONTRIVIAL = {"quick": 120, "thorough": 1500}
JOBS = {"quick": 10, "thorough": 16}


def shards(tier, seed):
    if tier == "quick":
        n_sh, n, nmax, budget, ncuda = 8, 40, 12000, 60, 8
    else:
        n_sh, n, nmax, budget, ncuda = 14, 500, 200000, 560, 80
    out = [{"name": f"ana{i}", "threads": 2, "timeout": budget * 4 + 300,
            "params": {"seed": seed, "shard": i, "n": n, "nmax": nmax, "budget_s": budget,
                       "backends": ["numba", "numpy", "auto"]}} for i in range(n_sh)]
    out.append({"name": "cudasim", "threads": 1, "timeout": budget * 4 + 300,
                "env": {"NUMBA_ENABLE_CUDASIM": "1"},
                "params": {"seed": seed, "shard": 100, "n": ncuda, "nmax": 1500,
                           "budget_s": budget * 3, "backends": ["cuda"], "cuda": True}})
    return out


def nontrivial(res):
    K = np.asarray(res.K)
    return res.nf >= 5 and len(set(np.asarray(res.L).tolist())) >= 2 and bool(np.any(K >= 2))


def probe_callback(rec, events):
    def cb(name, args, out):
        events.append((name, args, out))
    return cb


def check_dispatch(rec, events, res, desc):
    """Evidence/early localisation: dispatcher arguments are consistent with the plan."""
    fs = desc["fs"]
    n = min(len(events), res.nf)
    for j in range(n):
        name, args, out = events[j]
        rec.count("kernel_events")
        cs = "_csd" in name
        st, L, w, om = (args[2], args[3], args[4], args[5]) if cs else (args[1], args[2], args[3], args[4])
        Q = args[6] if cs and len(args) > 6 else (args[5] if (not cs and len(args) > 5) else None)
        if len(w) != L:
            rec.violation("dispatch:window-length", f"kernel call {j}: len(w)={len(w)} != L={L}")
        if Q is not None and tuple(Q.shape) != (L, min(L, desc["order"] + 1)) \
                and tuple(Q.shape) != (L, desc["order"] + 1):
            rec.violation("dispatch:Q-shape", f"kernel call {j}: Q.shape={Q.shape}, L={L}, "
                                              f"order={desc['order']}")
        if abs(om - 2 * np.pi * float(res.f[j]) / fs) > 1e-12 * max(1.0, abs(om)):
            rec.violation("dispatch:omega", f"kernel call {j}: omega={om!r} != 2*pi*f/fs")
        if not np.array_equal(np.asarray(st), np.asarray(res.D[j])):
            rec.violation("dispatch:starts", f"kernel call {j}: starts differ from D[{j}]")


def one_analysis(rec, seedt, params, vary_from=None):
    """vary_from = (desc, data) of the previous analysis of this process: the same data buffer
    is analysed again with ONE option changed (call history on shared state: window / basis
    caches, plan caches, anything remembered under an incomplete key)."""
    from speckit.analysis import SpectrumAnalyzer
    rng = gen.rng_for(*seedt)
    cuda = params.get("cuda", False)
    desc = api.random_analysis(rng, nmax=params["nmax"], backends=params["backends"],
                               nmin=40 if cuda else 50)
    if cuda:
        desc["Lmin"] = min(desc["Lmin"], 8)
        desc["olap"] = float(rng.choice([0.0, 0.5]))
        desc["Kdes"] = int(rng.choice([1, 5]))
        desc["Jdes"] = int(rng.choice([5, 12]))
    desc["kind"] = "analysis"
    desc["seed"] = list(seedt)
    if vary_from is not None:
        alt = desc
        desc = dict(vary_from[0])
        which = str(rng.choice(["win", "win", "order", "olap", "backend", "sched", "bmin", "Lmin",
                                "Kdes"]))
        desc[which] = alt[which]
        desc.update(kind="analysis", seed=list(seedt), vary_of=vary_from[0]["seed"],
                    varied=which, band=alt["band"])
        data = vary_from[1]
    else:
        data = api.build_data(desc, seedt)
    want_band = desc["band"] == "pending"
    desc["band"] = None
    one_analysis.last = (dict(desc), data)
    rec.case(desc, nontrivial=False)
    events = []
    probe = KernelProbe(probe_callback(rec, events)).install()
    try:
        try:
            an = SpectrumAnalyzer(data, desc["fs"], **api.analyzer_kwargs(desc))
            res = an.compute()
        except ValueError as e:
            rec.blocked(f"analysis rejected: {str(e)[:80]}")
            return
        finally:
            probe.uninstall()
    except BaseException as e:
        rec.violation("compute-raises", f"{type(e).__name__}: {e}")
        return
    if nontrivial(res):
        rec.mark_nontrivial(desc)
    rec.distinct("schedulers_windows", f"{desc['sched']}/{desc['win']['kind']}/{desc['order']}/"
                                       f"{desc['backend']}/{desc['cross']}")
    tag = f"compute[{desc['backend']}]"
    api.check_result(res, data, desc, rec, tag, max_bins=60 if not cuda else 25, rng=rng)
    check_dispatch(rec, events, res, desc)

    # ---- the one-call wrappers give the same estimate --------------------------------
    if not cuda and rng.random() < 0.35:
        import speckit
        wname = str(rng.choice(["compute_spectrum", "lpsd"]))
        try:
            rw = getattr(speckit, wname)(data, desc["fs"], **api.analyzer_kwargs(desc))
            rec.count("wrapper_calls")
            same = rw.nf == res.nf and all(
                np.array_equal(np.asarray(getattr(rw, k)), np.asarray(getattr(res, k)))
                for k in ("f", "L", "K", "XX", "YY", "XY", "M2", "S2", "S12"))
            if not same:
                rec.violation("wrapper-differs", f"speckit.{wname}(data, fs, **options) differs "
                                                 f"from SpectrumAnalyzer(data, fs, **options).compute()")
        except ValueError as e:
            rec.blocked(f"wrapper rejected: {str(e)[:60]}")
        except Exception as e:
            rec.violation("wrapper-raises", f"speckit.{wname}: {type(e).__name__}: {e}")

    # ---- band restriction ---------------------------------------------------
    if want_band and res.nf >= 3 and not cuda:
        f = np.asarray(res.f)
        kind = str(rng.choice(["interior", "single", "edge-low", "edge-high", "between"]))
        a = int(rng.integers(0, res.nf))
        b = int(rng.integers(a, res.nf))
        if kind == "single":
            band = (float(f[a]), float(f[a]))
        elif kind == "edge-low":
            band = (0.0, float(f[b]))
        elif kind == "edge-high":
            band = (float(f[a]), float(desc["fs"]))
        elif kind == "between":
            lo = float(f[a]) * (1 + 1e-9)
            band = (lo, max(lo, float(f[b]) * (1 + 1e-9)))
        else:
            band = (float(f[a]), float(f[b]))
        d2 = dict(desc, band=list(band))
        mask = (f >= band[0]) & (f <= band[1])
        try:
            res_b = SpectrumAnalyzer(data, desc["fs"], **api.analyzer_kwargs(d2)).compute()
        except ValueError as e:
            if mask.any():
                rec.violation("band:raises-with-bins-in-band",
                              f"band {band} holds {int(mask.sum())} bins but: {e}")
            else:
                rec.count("band_empty_raised")
            res_b = None
        if res_b is not None:
            rec.count("band_pairs")
            sel = np.nonzero(mask)[0]
            if res_b.nf != sel.size:
                rec.violation("band:bin-count", f"band {band} ({kind}): {res_b.nf} bins returned, "
                                                f"{sel.size} in-band bins in the full analysis")
            else:
                for k in api.PER_BIN_FIELDS:
                    u, v = np.asarray(getattr(res, k))[sel], np.asarray(getattr(res_b, k))
                    scale = np.maximum(np.abs(u), 1e-300)
                    if u.shape != v.shape or np.any(np.abs(u - v) > 1e-12 * scale):
                        rec.violation("band:field-misaligned",
                                      f"band {band} ({kind}): field '{k}' of the band-restricted "
                                      f"result differs from the in-band bins of the full result")
                        break
                for jj, j in enumerate(sel):
                    if not np.array_equal(np.asarray(res.D[j]), np.asarray(res_b.D[jj])):
                        rec.violation("band:field-misaligned",
                                      f"band {band} ({kind}): D[{jj}] is not the full result's "
                                      f"D[{j}]")
                        break
        # History: after a band-restricted analysis, further analyzers with the same options -
        # another band, then no band - must still see the whole plan (anything a band analysis
        # narrows must be its own copy).
        if rng.random() < 0.6:
            a2 = int(rng.integers(0, res.nf))
            b2 = int(rng.integers(a2, res.nf))
            band2 = (float(f[a2]), float(f[b2]))
            sel2 = np.nonzero((f >= band2[0]) & (f <= band2[1]))[0]
            try:
                res_b2 = SpectrumAnalyzer(data, desc["fs"],
                                          **api.analyzer_kwargs(dict(desc, band=list(band2)))).compute()
                res_again = SpectrumAnalyzer(data, desc["fs"], **api.analyzer_kwargs(desc)).compute()
            except Exception as e:
                rec.violation("band-history:raises", f"after band {band}: band {band2} / no band: "
                                                     f"{type(e).__name__}: {e}")
                res_b2 = res_again = None
            if res_b2 is not None:
                rec.count("band_histories")
                if res_b2.nf != sel2.size or np.any(
                        np.abs(np.asarray(res_b2.f) - f[sel2]) > 1e-12 * np.abs(f[sel2])):
                    rec.violation("band-history:second-band",
                                  f"after an analysis restricted to {band}, a new analyzer with band "
                                  f"{band2} returns {res_b2.nf} bins; the full analysis has "
                                  f"{sel2.size} bins there")
                if res_again.nf != res.nf or any(
                        not np.array_equal(np.asarray(getattr(res_again, k)), np.asarray(getattr(res, k)))
                        for k in ("f", "L", "K", "XX", "M2", "S2")):
                    rec.violation("band-history:unrestricted-after-band",
                                  f"after analyses restricted to {band} and {band2}, a new analyzer "
                                  f"with the same options and no band returns {res_again.nf} bins "
                                  f"(first unrestricted analysis: {res.nf}) or different values")

    # ---- single-bin requests ---------------------------------------------------
    N = desc["N"]
    fs = desc["fs"]
    nreq = 3 if not cuda else 1
    for q in range(nreq):
        by = str(rng.choice(["L", "fres"]))
        Lreq = int(rng.choice([1, 2, 7, 64, N, int(rng.integers(1, N + 1))]))
        Lreq = min(Lreq, N, 128 if cuda else N)
        fk = str(rng.choice(["grid", "frac", "zero", "nyq", "planbin", "above-nyq"]))
        if fk == "grid":
            freq = fs * int(rng.integers(0, Lreq // 2 + 1)) / Lreq
        elif fk == "frac":
            freq = float(rng.uniform(0, fs / 2))
        elif fk == "zero":
            freq = 0.0
        elif fk == "nyq":
            freq = fs / 2
        elif fk == "above-nyq":
            freq = fs * float(rng.uniform(0.5, 1.0))   # allowed (documented warning)
        else:
            freq = float(res.f[int(rng.integers(0, res.nf))])
        sdesc = {"kind": "single", "seed": list(seedt), "q": q, "by": by, "L": Lreq,
                 "freq": freq, "backend": desc["backend"], "order": desc["order"]}
        rec.case(sdesc, nontrivial=True)
        try:
            if by == "L":
                r1 = an.compute_single_bin(freq, L=Lreq)
                Lexp = Lreq
            else:
                fres = fs / Lreq * float(rng.choice([1.0, 1.0, 1.003, 0.998]))
                if rng.random() < 0.05:
                    fres = fs * float(rng.choice([2.5, 10.0]))   # coarser than fs: one-sample segments
                Lexp = max(1, int(round(fs / fres)))
                if Lexp > N:
                    continue
                r1 = an.compute_single_bin(freq, fres=fres)
        except BaseException as e:
            rec.violation("single-bin:raises", f"compute_single_bin({freq}, {by}={Lreq}) raised "
                                               f"{type(e).__name__}: {e}")
            continue
        rec.count("single_bin_compared")
        if not cuda and q == 0:
            import speckit
            try:
                kwargs = {"L": Lreq} if by == "L" else {"fres": fres}
                rw = speckit.compute_single_bin(data, desc["fs"], freq, **kwargs,
                                                **api.analyzer_kwargs(desc))
                rec.count("wrapper_calls")
                if not all(np.array_equal(np.asarray(getattr(rw, k)), np.asarray(getattr(r1, k)))
                           for k in ("f", "L", "K", "XX", "YY", "XY", "M2", "S2", "S12")):
                    rec.violation("wrapper-differs", "speckit.compute_single_bin(...) differs from "
                                                     "SpectrumAnalyzer(...).compute_single_bin(...)")
            except Exception as e:
                rec.violation("wrapper-raises", f"speckit.compute_single_bin: {type(e).__name__}: {e}")
        if r1.nf != 1 or int(r1.L[0]) != Lexp:
            rec.violation("single-bin:segment-length",
                          f"requested {by}->{Lexp}, result reports L={r1.L.tolist()} nf={r1.nf}")
            continue
        if abs(float(r1.f[0]) - freq) > 0:
            rec.violation("single-bin:frequency", f"result f={r1.f[0]!r} != requested {freq!r}")
        api.check_result(r1, data, desc, rec, f"single[{desc['backend']}]")


def custom_plan_case(rec, seedt):
    """scheduler=<callable>: a user-supplied plan with segment lengths down to 1, arbitrary
    (fractional-bin) frequencies in any order, K=1 bins with L<N, irregular starts.  Every bin of
    the result must still be the reference estimator applied to that plan."""
    from speckit.analysis import SpectrumAnalyzer
    rng = gen.rng_for(*seedt)
    N = int(rng.integers(40, 3000))
    fs = float(rng.choice([1.0, 48.0]))
    nf = int(rng.integers(3, 25))
    Ls = [int(v) for v in rng.choice([1, 1, 2, 3, 4, 7, 16, 33, 64, 100, 257, 1024, 1025, N],
                                     size=nf)]
    Ls = [min(L, N) for L in Ls]
    plan = {"f": [], "r": [], "b": [], "L": [], "K": [], "navg": [], "D": [], "O": []}
    for L in Ls:
        K = int(rng.choice([1, 1, 2, 3, 9, 40]))
        K = min(K, N - L + 1)
        kind = str(rng.choice(["sorted", "even", "repeated", "unsorted"]))
        if kind == "even" and K > 1:
            d = np.round(np.arange(K) * ((N - L) / (K - 1))).astype(np.int64)
        elif kind == "repeated":
            d = np.full(K, int(rng.integers(0, N - L + 1)), dtype=np.int64)
        else:
            d = rng.integers(0, N - L + 1, size=K).astype(np.int64)
            if kind == "sorted":
                d = np.sort(d)
        f = float(rng.uniform(0, fs / 2))
        plan["f"].append(f); plan["r"].append(fs / L); plan["b"].append(f * L / fs)
        plan["L"].append(L); plan["K"].append(K); plan["navg"].append(K); plan["D"].append(d)
        plan["O"].append(0.0)
    plan["nf"] = nf

    def my_scheduler(**kwargs):
        return {k: (list(v) if isinstance(v, list) else v) for k, v in plan.items()}

    desc = api.random_analysis(rng, nmax=N, nmin=N, backends=("numba", "numpy", "auto"))
    desc.update(kind="custom-plan", seed=list(seedt), N=N, fs=fs, Lmin=1, band=None,
                sched="custom", Ls=Ls[:10])
    rec.case(desc, nontrivial=True)
    data = api.build_data(desc, seedt)
    kw = api.analyzer_kwargs(desc)
    kw["scheduler"] = my_scheduler
    res = api.attempt(rec, lambda: SpectrumAnalyzer(data, fs, **kw).compute(),
                      "compute() with a user-supplied scheduler")
    if res is None:
        return
    rec.count("custom_plan_results")
    if res.nf != nf or not np.array_equal(np.asarray(res.L), np.asarray(Ls)):
        rec.violation("custom-plan-not-honoured", "the result does not report the plan the "
                                                  "user-supplied scheduler returned")
        return
    api.check_result(res, data, desc, rec, f"custom-plan[{desc['backend']}]")


def forced_band_case(rec, seedt):
    """force_target_nf together with band: the band-restricted analysis must be the in-band bins of
    the unrestricted analysis made with the same options (same forced target)."""
    from speckit.analysis import SpectrumAnalyzer
    rng = gen.rng_for(*seedt)
    N = int(rng.integers(600, 3000))
    x = gen.record(rng, N, "white")
    fs = float(rng.choice([1.0, 100.0]))
    sched = str(rng.choice(["ltf", "lpsd", "new_ltf"]))
    base = dict(scheduler=sched, olap=0.5, Kdes=int(rng.choice([2, 10])), order=0, win="hann")
    desc = {"kind": "forced-band", "seed": list(seedt), "N": N, "fs": fs, "sched": sched}
    rec.case(desc, nontrivial=True)
    try:
        target = int(len(SpectrumAnalyzer(x, fs, Jdes=int(rng.choice([120, 200, 300])), **base).plan()["f"]))
        kw = dict(base, Jdes=target, force_target_nf=True)
        full = SpectrumAnalyzer(x, fs, **kw).compute()
        f = np.asarray(full.f)
        a = int(rng.integers(1, max(2, full.nf // 2)))
        b = int(rng.integers(a, full.nf))
        band = (float(f[a]), float(f[b]))
        part = SpectrumAnalyzer(x, fs, band=band, **kw).compute()
    except (ValueError, RuntimeError) as e:
        rec.blocked(f"rejected: {str(e)[:70]}")
        return
    rec.count("forced_band_pairs")
    if full.nf != target:
        rec.violation("forced-count", f"force_target_nf with target {target} gave {full.nf} bins")
    sel = np.nonzero((f >= band[0]) & (f <= band[1]))[0]
    if part.nf != sel.size or np.any(np.abs(np.asarray(part.f) - f[sel]) > 1e-12 * f[sel]) \
            or np.any(np.abs(np.asarray(part.XX) - np.asarray(full.XX)[sel])
                      > 1e-12 * np.abs(np.asarray(full.XX)[sel])):
        rec.violation("band:bin-count", f"force_target_nf={target} with band {band}: {part.nf} bins "
                                        f"returned, the unrestricted forced analysis has {sel.size} "
                                        f"bins there (or they differ)")


def run_shard(params, rec):
    if not params.get("cuda"):
        for i in range(max(2, params["n"] // 4)):
            custom_plan_case(rec, [params["seed"], params["shard"], "custom", i])
        for i in range(2):
            forced_band_case(rec, [params["seed"], params["shard"], "forced-band", i])
    if params.get("cuda"):
        from speckit import core
        if not core._CUDA_ENABLED:
            rec.note("CUDA simulator not enabled")
            return
    t0 = time.time()
    for i in range(params["n"]):
        if time.time() - t0 > params["budget_s"]:
            rec.note(f"time budget reached after {i} analyses")
            break
        prev = getattr(one_analysis, "last", None) if (i % 3 == 2 and not params.get("cuda")) else None
        one_analysis(rec, [params["seed"], params["shard"], i], params, vary_from=prev)


def replay(case, rec):
    if case.get("kind") == "custom-plan":
        return custom_plan_case(rec, case["seed"])
    if case.get("kind") == "forced-band":
        return forced_band_case(rec, case["seed"])
    if case.get("vary_of"):
        # reproduce the history: the analysis this one was derived from runs first
        one_analysis.last = None
        replay({k: v for k, v in dict(case, seed=case["vary_of"]).items()
                if k not in ("vary_of", "varied")}, rec)
        params = {"nmax": 200000 if case.get("N", 0) > 12000 else 12000,
                  "backends": ["numba", "numpy", "auto"], "cuda": False}
        one_analysis(rec, case["seed"], params, vary_from=one_analysis.last)
        return
    seedt = case["seed"]
    cuda = case.get("backend") == "cuda"
    params = {"nmax": 200000 if case.get("N", 0) > 12000 else 12000,
              "backends": ["cuda"] if cuda else ["numba", "numpy", "auto"], "cuda": cuda}
    # the generator is deterministic in (seed, nmax, backends): try both tiers' nmax
    for nmax in (12000, 200000, 1500):
        p = dict(params, nmax=nmax)
        rng = gen.rng_for(*seedt)
        d = api.random_analysis(rng, nmax=nmax, backends=p["backends"], nmin=40 if cuda else 50)
        if case.get("kind") != "analysis" or d["N"] == case.get("N"):
            one_analysis(rec, seedt, p)
            return
    one_analysis(rec, seedt, params)
