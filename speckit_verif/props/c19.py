"""C19 - time-domain detrending and RMS integration are exact and mutually consistent."""
import math
import time

import numpy as np

from .. import gen

ID = "C19"
LEVEL = "exploration"
RULE = ("(detrend) polynomial_detrend(x, p), p in 0..5, on series {random, trends, integer/bool/"
        "float32 dtypes} of length 1..1e6 (N < p+1 included): residual orthogonal to an orthonormal "
        "Legendre basis of degree <= p built by the harness (1e-9*||x||), polynomials of degree <= "
        "p map to zero, idempotent, same result for the same samples held as int and as float; "
        "df_detrend = per-column polynomial_detrend on the selected numeric columns and touches "
        "nothing else; (rms) integral_rms(f, asd, band) = sqrt(trapz(asd^2, f)) over grid points in "
        "the band (1e-12 + n*u) on non-decreasing grids {linear, log, random, plan grids, grids regular "
        "from a summary only, stitched grids with a repeated junction frequency}, additive "
        "in power at a grid point, monotone under nesting; result.get_rms(band) = integral_rms("
        "result.f, result.asd, band) incl. reversed bands; (Parseval) full-band get_rms of white / "
        "low-passed / 1/f^alpha records within 6 % of the time-domain rms.  Distinct by case "
        "descriptor.")
ASSUMPTIONS = ["Parseval tolerance 6 % covers the band edges [0,f0), (f_last, fs/2] and the "
               "estimator variance (records chosen with < 1 % power below the first bin)"]
DECIDING_COUNTERS = ["detrend_cases", "df_detrend_cases", "rms_cases", "get_rms_cases",
                     "parseval_records"]
MIN_NONTRIVIAL = {"quick": 500, "thorough": 10000}
JOBS = {"quick": 8, "thorough": 16}


def shards(tier, seed):
    if tier == "quick":
        n_sh, n, budget, npars = 8, 120, 40, 1
    else:
        n_sh, n, budget, npars = 16, 8000, 300, 12
    return [{"name": f"dr{i}", "threads": 2, "timeout": budget * 4 + 300,
             "params": {"seed": seed, "shard": i, "n": n, "budget_s": budget, "npars": npars,
                        "tier": tier}} for i in range(n_sh)]


def legendre_basis(N, p):
    t = np.linspace(-1, 1, N) if N > 1 else np.zeros(1)
    V = np.polynomial.legendre.legvander(t, min(p, N - 1))
    Q, _ = np.linalg.qr(V)
    return Q


def detrend_case(rec, seedt, tier):
    from speckit import dsp
    rng = gen.rng_for(*seedt)
    p = int(rng.integers(0, 6))
    big = [100000] + ([1000000] if tier == "thorough" else [])
    N = int(rng.choice([1, 2, 3, 4, 5, 6, 7, 10, 33, 257, 1000, 5000] + big))
    kind = str(rng.choice(["random", "trend+noise", "poly", "int", "bool", "float32", "offset"]))
    t = np.linspace(-1, 1, N) if N > 1 else np.zeros(1)
    if kind == "random":
        x = rng.standard_normal(N)
    elif kind == "trend+noise":
        x = 50 * t ** 2 - 20 * t + 3 + rng.standard_normal(N)
    elif kind == "poly":
        x = np.polynomial.polynomial.polyval(t, rng.uniform(-5, 5, size=min(p, N - 1) + 1))
    elif kind == "int":
        x = rng.integers(-2000, 2000, size=N)
    elif kind == "bool":
        x = rng.random(N) < 0.5
    elif kind == "float32":
        x = (rng.standard_normal(N) + 10 * t).astype(np.float32)
    else:
        x = 1e6 + rng.standard_normal(N)
    if kind not in ("int", "bool", "float32") and rng.random() < 0.25:
        # the same series in another unit (exact rescaling; every tolerance below is relative)
        x = np.asarray(x, dtype=np.float64) * 2.0 ** int(rng.choice([-300, -100, -30, 30, 100, 300]))
        rec.count("detrend_cases_in_rescaled_units")
    desc = {"kind": "detrend", "seed": list(seedt), "p": p, "N": N, "series": kind, "tier": tier}
    rec.case(desc, nontrivial=True)
    xin = np.array(x, copy=True)
    form = str(rng.choice(["array", "array", "list", "np-int-order", "strided"]))
    desc["form"] = form
    xarg, parg = x, p
    if form == "list":
        xarg = np.asarray(x).tolist()
    elif form == "np-int-order":
        parg = np.int64(p)
    elif form == "strided":
        xarg = np.repeat(np.asarray(x), 2)[::2]
    try:
        r = np.asarray(dsp.polynomial_detrend(xarg, order=parg))
    except Exception as e:
        rec.violation("detrend-raises", f"polynomial_detrend(N={N}, order={p}, {kind}) raised "
                                        f"{type(e).__name__}: {e}")
        return
    rec.count("detrend_cases")
    if not np.array_equal(np.asarray(x), xin):
        rec.violation("detrend-modifies-input", "polynomial_detrend wrote to its input")
    xf = np.asarray(x, dtype=np.float64)
    if r.shape != (N,):
        rec.violation("detrend-shape", f"output shape {r.shape} != ({N},)")
        return
    nx = float(np.linalg.norm(xf)) or 1.0
    Q = legendre_basis(N, p)
    rf = r.astype(np.float64)
    prj = float(np.max(np.abs(Q.T @ rf)))
    tol = 1e-9 * nx
    if kind == "float32":
        tol = 1e-5 * nx  # the caller's float32 samples carry 6e-8 relative precision
    rec.ratio("orthogonality_over_tol", prj / tol)
    if prj > tol:
        rec.violation("detrend-not-orthogonal",
                      f"order {p}, N={N}, {kind} ({np.asarray(x).dtype}): residual has a component "
                      f"{prj:.3e} along a degree<={p} polynomial (||x||={nx:.3e}); residual dtype "
                      f"{r.dtype}")
    if kind == "poly":
        if float(np.max(np.abs(rf))) > 1e-9 * max(float(np.max(np.abs(xf))), 1e-300) * math.sqrt(N):
            rec.violation("detrend-polynomial-not-zero", f"a degree<={p} polynomial is not mapped "
                                                         f"to zero (max residual {np.max(np.abs(rf)):.3e})")
    try:
        r2 = np.asarray(dsp.polynomial_detrend(r, order=p)).astype(np.float64)
        if float(np.max(np.abs(r2 - rf))) > (1e-9 if kind != "float32" else 1e-5) * nx:
            rec.violation("detrend-not-idempotent", f"order {p}, N={N}, {kind}: second pass moves "
                                                    f"the series by {np.max(np.abs(r2 - rf)):.3e}")
    except Exception as e:
        rec.violation("detrend-raises", f"second pass raised {type(e).__name__}: {e}")
    if kind in ("int", "bool"):
        rfl = np.asarray(dsp.polynomial_detrend(xf, order=p), dtype=np.float64)
        if float(np.max(np.abs(rfl - rf))) > 1e-9 * nx:
            rec.violation("detrend-dtype-dependent",
                          f"order {p}, N={N}: the same samples held as {np.asarray(x).dtype} and as "
                          f"float64 detrend differently (max diff {np.max(np.abs(rfl - rf)):.3e})")


def df_case(rec, seedt):
    import pandas as pd
    from speckit import dsp
    rng = gen.rng_for(*seedt)
    N = int(rng.choice([5, 60, 1000]))
    p = int(rng.integers(0, 4))
    df = pd.DataFrame({"a": rng.standard_normal(N) + np.arange(N) * 0.1,
                       "b": (np.arange(N) ** 2).astype(float),
                       "c": rng.integers(-50, 50, size=N), "s": ["t"] * N})
    cols = [None, ["a"], ["c", "b"], ["a", "s"]][int(rng.integers(0, 4))]
    inplace = bool(rng.random() < 0.5)
    if rng.random() < 0.25:
        # the frame already carries the output of an earlier detrend (suffix name clash)
        df["a_detrended"] = np.asarray(dsp.polynomial_detrend(df["a"].values, order=3)) \
            + 0.01 * np.arange(N) ** 2
        if cols is not None and "a" in cols and rng.random() < 0.7:
            cols = cols + ["a_detrended"] if rng.random() < 0.5 else ["a_detrended"] + cols
    desc = {"kind": "df", "seed": list(seedt), "N": N, "p": p, "columns": cols, "inplace": inplace,
            "has_suffix_column": "a_detrended" in df.columns}
    rec.case(desc, nontrivial=True)
    # index flavours a caller's frame realistically has (slice that keeps its labels, float time
    # index, rows re-ordered without reset_index): the wrapper works on row POSITION
    ikind = str(rng.choice(["default", "default", "offset-labels", "float-time", "shuffled-labels"]))
    if ikind == "offset-labels":
        df.index = np.arange(1000, 1000 + N)
    elif ikind == "float-time":
        df.index = np.arange(N) / 7.0 + 3.5
    elif ikind == "shuffled-labels":
        df.index = rng.permutation(N)
    desc["index"] = ikind
    df0 = df.copy(deep=True)
    try:
        out = dsp.df_detrend(df, columns=cols, order=p, inplace=inplace)
    except Exception as e:
        rec.violation("df_detrend-raises", f"{type(e).__name__}: {e} for {desc}")
        return
    rec.count("df_detrend_cases")
    if not df.equals(df0):
        rec.violation("df_detrend-modifies-input", "the caller's DataFrame was modified")
    if len(out) != N or not np.array_equal(np.asarray(out.index), np.asarray(df0.index)):
        rec.violation("df-detrend-rows", f"result has {len(out)} rows / a different index than the "
                                         f"input ({N} rows, index kind {ikind})")
        return
    sel = list(df.columns) if cols is None else cols
    # a pre-existing column that is itself the output name of a selected column is legitimately
    # replaced by that output (suffix name clash)
    clash = set() if inplace else {f"{c}_detrended" for c in sel
                                   if c in df.columns and df[c].dtype.kind in "biufc"}
    for c in df.columns:
        numeric = df[c].dtype.kind in "biufc"
        target = c if inplace else f"{c}_detrended"
        if c in sel and numeric:
            exp = np.asarray(dsp.polynomial_detrend(df0[c].values.astype(float), order=p))
            if target not in out.columns:
                rec.violation("df-missing-detrended-column", f"{target} missing")
                continue
            got = np.asarray(out[target].values, dtype=float)
            if np.max(np.abs(got - exp)) > 1e-9 * (np.linalg.norm(exp) + np.linalg.norm(df0[c].values)):
                rec.violation("df-detrend-value", f"column {c}: not polynomial_detrend(column, {p})")
            Q = legendre_basis(N, p)
            if np.max(np.abs(Q.T @ got)) > 1e-9 * (np.linalg.norm(df0[c].values.astype(float)) or 1):
                rec.violation("df-detrend-not-orthogonal", f"column {c} (dtype {df0[c].dtype}): "
                                                           f"detrended column is not orthogonal to "
                                                           f"degree<={p} polynomials")
            if not inplace and c not in clash and not np.array_equal(out[c].values, df0[c].values):
                rec.violation("df-original-column-changed", f"column {c} changed (inplace=False)")
        else:
            if c not in clash and not np.array_equal(out[c].values, df0[c].values):
                rec.violation("df-unselected-column-touched", f"column {c} changed")
            if not inplace and f"{c}_detrended" in out.columns and f"{c}_detrended" not in df0.columns:
                rec.violation("df-unselected-column-touched", f"{c}_detrended created")


def grid(rng, kind, n):
    if kind == "stitched" and n >= 6:
        # two spectra joined at a junction frequency that both contain (a repeated grid value:
        # a zero-width trapezoid); the ASD generally differs on the two samples
        k = int(rng.integers(2, n - 2))
        f = np.sort(rng.uniform(0.1, 50.0, size=n - 1))
        return np.concatenate([f[:k], [f[k - 1]], f[k:]])
    if kind in ("notched", "zoomed", "symmetric") and n >= 6:
        # grids that look uniform from their first and last steps but are not
        f = np.arange(n, dtype=float) * 0.5 + 1.0
        if kind == "notched":
            k = int(rng.integers(2, n - 2))
            f[k:] += float(rng.uniform(1.0, 20.0))          # a gap (removed band)
        elif kind == "zoomed":
            a, b = sorted(rng.integers(1, n - 1, size=2))
            dense = np.linspace(f[a], f[min(b + 1, n - 1)], 4 * max(1, b - a) + 2)
            f = np.unique(np.concatenate([f, dense]))
        else:
            steps = rng.uniform(0.1, 2.0, size=(n - 1) // 2)
            mid = [] if (n - 1) % 2 == 0 else [float(rng.uniform(0.1, 2.0))]
            f = np.concatenate([[1.0], 1.0 + np.cumsum(np.concatenate([steps, mid, steps[::-1]]))])
        return f
    if kind == "linear":
        return np.linspace(0.1, 10.0, n)
    if kind == "log":
        return np.logspace(-3, 2, n)
    if kind == "plan" and n > 3000:
        kind = "log"   # compounding steps of 1-20 % would overflow after ~4000 points
        return np.logspace(-3, 2, n)
    if kind == "plan":
        f = [1e-3]
        for _ in range(n - 1):
            f.append(f[-1] * (1 + rng.uniform(0.01, 0.2)))
        return np.array(f)
    return np.sort(rng.uniform(0.0, 50.0, size=n)) + np.arange(n) * 1e-9


def rms_case(rec, seedt):
    from speckit import dsp
    rng = gen.rng_for(*seedt)
    n = int(rng.choice([1, 2, 3, 10, 200, 3000, 4097, 16385, 65537]))
    f = grid(rng, str(rng.choice(["linear", "log", "plan", "random", "notched", "zoomed",
                                  "symmetric", "stitched"])), n)
    n = len(f)
    akind = str(rng.choice(["flat", "power", "random", "zeros", "steep-red", "steep-blue"]))
    if akind == "flat":
        asd = np.full(n, 2.5)
    elif akind in ("steep-red", "steep-blue"):
        # several decades of dynamic range across the grid (the band's power is a tiny or a
        # dominant part of the total)
        ex = float(rng.choice([2.0, 3.0, 4.0])) * (-1 if akind == "steep-red" else 1)
        with np.errstate(all="ignore"):
            asd = (np.asarray(f) / (float(f[len(f) // 2]) or 1.0) + 1e-6) ** ex
            span = float(f[-1] - f[0]) if len(f) > 1 else 1.0
            m_ = np.float64(np.max(asd)) if len(asd) else np.float64(0)
            if not (np.all(np.isfinite(asd)) and np.isfinite(span) and m_ * m_ * span < 1e200):
                akind, asd = "power", (f + 1e-3) ** -0.7   # dynamic range beyond float64
    elif akind == "power":
        asd = (f + 1e-3) ** -0.7
    elif akind == "random":
        asd = rng.uniform(0, 3, size=n)
    else:
        asd = rng.uniform(0, 3, size=n) * (rng.random(n) < 0.5)
    if rng.random() < 0.25 and float(np.max(asd)) < 1e50:
        asd = asd * 2.0 ** int(rng.choice([-150, -60, -20, 20, 60, 150]))   # other units
        rec.count("rms_cases_in_rescaled_units")
    bkind = str(rng.choice(["inside", "gridpoints", "straddle-low", "straddle-high", "outside",
                            "degenerate", "none"]))
    lo, hi = float(f[0]), float(f[-1])
    if bkind == "inside":
        a, b = sorted(rng.uniform(lo, hi, size=2)) if n > 1 else (lo, hi)
    elif bkind == "gridpoints":
        i, j = sorted(rng.integers(0, n, size=2))
        a, b = float(f[i]), float(f[j])
    elif bkind == "straddle-low":
        a, b = lo - 1.0, float(rng.uniform(lo, hi))
    elif bkind == "straddle-high":
        a, b = float(rng.uniform(lo, hi)), hi + 5.0
    elif bkind == "outside":
        a, b = hi + 1.0, hi + 2.0
    elif bkind == "degenerate":
        a = b = float(rng.uniform(lo, hi))
    else:
        a, b = None, None
    desc = {"kind": "rms", "seed": list(seedt), "n": n, "asd": akind, "band": bkind}
    rec.case(desc, nontrivial=n >= 2)
    band = None if a is None else (float(a), float(b))
    form = str(rng.choice(["arrays", "arrays", "lists", "band-list", "band-array"]))
    desc["form"] = form
    farg, aarg, barg = f, asd, band
    if form == "lists":
        farg, aarg = f.tolist(), asd.tolist()
    elif form == "band-list" and band is not None:
        barg = [band[0], band[1]]
    elif form == "band-array" and band is not None:
        barg = np.array(band)
    try:
        got = float(dsp.integral_rms(farg, aarg, barg))
    except Exception as e:
        rec.violation("integral_rms-raises", f"{type(e).__name__}: {e} ({desc})")
        return
    rec.count("rms_cases")

    def ref(a_, b_):
        m = (f >= a_) & (f <= b_) if a_ is not None else np.ones(n, dtype=bool)
        ff, aa = f[m], asd[m]
        if ff.size < 2:
            return 0.0
        return math.sqrt(math.fsum(0.5 * (aa[1:] ** 2 + aa[:-1] ** 2) * np.diff(ff)))
    exp = ref(a, b)
    # the reference sum is exact (fsum); a sequential or pairwise float64 sum of n non-negative
    # terms is within n*u of it, and the square root halves that
    tol_rel = 1e-12 + n * 1.2e-16
    rec.ratio("rms_err_over_tol", abs(got - exp) / (tol_rel * max(exp, 1e-300)) if exp > 0 else 0.0)
    if abs(got - exp) > tol_rel * max(exp, 1e-300) and abs(got - exp) > 1e-300:
        rec.violation("rms-not-trapezoid", f"integral_rms={got!r}, sqrt(trapz(asd^2)) over in-band "
                                           f"grid points={exp!r} (n={n}, band {band}, {bkind})")
    if n >= 3:
        i, j, k = sorted(rng.choice(n, size=3, replace=False))
        r_ac = float(dsp.integral_rms(f, asd, (float(f[i]), float(f[k]))))
        r_ab = float(dsp.integral_rms(f, asd, (float(f[i]), float(f[j]))))
        r_bc = float(dsp.integral_rms(f, asd, (float(f[j]), float(f[k]))))
        if abs(r_ac ** 2 - (r_ab ** 2 + r_bc ** 2)) > (1e-10 + 4 * n * 1.2e-16) * max(r_ac ** 2, 1e-300):
            rec.violation("rms-not-additive", f"rms^2({f[i]:.4g},{f[k]:.4g}) != rms^2(..,{f[j]:.4g})"
                                              f" + rms^2({f[j]:.4g},..): {r_ac ** 2!r} vs "
                                              f"{r_ab ** 2 + r_bc ** 2!r}")
        if r_ab > r_ac * (1 + tol_rel) or r_bc > r_ac * (1 + tol_rel):
            rec.violation("rms-not-monotone", "a nested band has a larger rms")


def get_rms_case(rec, seedt):
    from speckit import dsp
    from speckit.analysis import SpectrumAnalyzer
    rng = gen.rng_for(*seedt)
    N = int(rng.integers(300, 5000))
    x = gen.record(rng, N, str(rng.choice(["white", "ar1", "walk"])))
    fs = float(rng.choice([1.0, 64.0]))
    desc = {"kind": "get_rms", "seed": list(seedt), "N": N, "fs": fs}
    rec.case(desc, nontrivial=True)
    try:
        res = SpectrumAnalyzer(x, fs, Jdes=int(rng.choice([20, 100])), Kdes=10,
                               scheduler=str(rng.choice(gen.SCHEDS))).compute()
    except ValueError as e:
        rec.blocked(f"analysis rejected: {e}")
        return
    f = np.asarray(res.f)
    for _ in range(4):
        a, b = sorted(rng.uniform(f[0] * 0.5, f[-1] * 1.2, size=2))
        rev = bool(rng.random() < 0.3)
        band = (b, a) if rev else (a, b)
        rec.count("get_rms_cases")
        try:
            got = float(res.get_rms(band))
        except Exception as e:
            rec.violation("get_rms-raises", f"get_rms({band}) raised {type(e).__name__}: {e}")
            continue
        exp = float(dsp.integral_rms(res.f, res.asd, (a, b)))
        if abs(got - exp) > 1e-12 * max(exp, 1e-300):
            rec.violation("get_rms-ne-integral_rms", f"get_rms({band})={got!r} but integral_rms over "
                                                     f"({a:.5g},{b:.5g}) = {exp!r}")
    full = float(res.get_rms())
    if abs(full - float(dsp.integral_rms(res.f, res.asd))) > 1e-12 * full:
        rec.violation("get_rms-ne-integral_rms", "full-band get_rms != integral_rms(f, asd)")


def parseval_case(rec, seedt):
    from scipy.signal import lfilter
    from speckit import noise
    from speckit.analysis import SpectrumAnalyzer
    rng = gen.rng_for(*seedt)
    N = 50000
    fs = float(rng.choice([1.0, 100.0]))
    kind = str(rng.choice(["white", "lowpass", "alpha"]))
    if kind == "white":
        x = rng.standard_normal(N)
    elif kind == "lowpass":
        x = lfilter([0.2], [1.0, -0.8], rng.standard_normal(N + 500))[500:]
    else:
        x = noise.alpha_noise(fs, 20 * fs / N, fs / 2, float(rng.choice([0.5, 1.0])),
                              init_filter=True, seed=int(rng.integers(1, 10 ** 6))).get_series(N)
    desc = {"kind": "parseval", "seed": list(seedt), "rec": kind, "fs": fs}
    rec.case(desc, nontrivial=True)
    x = x - np.mean(x)
    res = SpectrumAnalyzer(x, fs, Jdes=300, Kdes=50, scheduler=str(rng.choice(["ltf", "vectorized_ltf"])),
                           order=0).compute()
    rec.count("parseval_records")
    r = float(res.get_rms()) / float(np.sqrt(np.mean(x ** 2)))
    rec.ratio("parseval_err_over_6pct", abs(r - 1) / 0.06)
    if abs(r - 1) > 0.06:
        rec.violation("parseval", f"{kind}: full-band get_rms / time-domain rms = {r:.4f}")


def run_shard(params, rec):
    t0 = time.time()
    seed, sh, tier = params["seed"], params["shard"], params["tier"]
    for i in range(params["npars"]):
        parseval_case(rec, [seed, sh, "pars", i])
    for i in range(params["n"]):
        if time.time() - t0 > params["budget_s"]:
            rec.note(f"time budget reached after {i}")
            break
        detrend_case(rec, [seed, sh, "det", i], tier)
        rms_case(rec, [seed, sh, "rms", i])
        rms_case(rec, [seed, sh, "rms2", i])
        if i % 4 == 0:
            df_case(rec, [seed, sh, "df", i])
        if i % 10 == 0:
            get_rms_case(rec, [seed, sh, "grms", i])


def replay(case, rec):
    k = case["kind"]
    if k == "detrend":
        detrend_case(rec, case["seed"], case.get("tier", "quick"))
    else:
        {"df": df_case, "rms": rms_case, "get_rms": get_rms_case,
         "parseval": parseval_case}[k](rec, case["seed"])
