"""C08 - segment detrending removes polynomial trends and nothing else."""
import math
import time

import numpy as np

from .. import api, gen, refmodel

ID = "C08"
LEVEL = "exploration"
RULE = ("Metamorphic pairs through the public API: (record, record + polynomial of degree <= p over "
        "the whole record, amplitude 1e2..1e8 x rms, on x only / y only / both with different "
        "coefficients) analysed with order p in {0,1,2}: every sampled bin of the trended analysis "
        "must equal the reference estimate of the UNtrended record within the rounding budget "
        "evaluated on the trended record (i.e. rounding relative to the size of the trend); a "
        "degree p+1 trend must change a low bin (b<=3, L>=N/2, Hann) by > 1e-6*(amp*sum w)^2; "
        "order -1 must equal the raw windowed reference and react to an added constant.  All "
        "schedulers (L down to 1), Kaiser/Hann, auto/cross, numba/numpy, cuda via simulator. "
        "Distinct by case descriptor; non-trivial: nf>=3 and some K>=2.")
ASSUMPTIONS = [
    "rounding budget of DESIGN section 3 (its detrend term D scales with max|raw segment|)",
    "cuda backend = Numba CUDA simulator (tiny N)",
]
DECIDING_COUNTERS = ["invariance_bins[numba]", "invariance_bins[numpy]", "invariance_bins[cuda]",
                     "sensitivity_checked", "order_minus1_constant_checked"]
MIN_NONTRIVIAL = {"quick": 100, "thorough": 2000}
JOBS = {"quick": 9, "thorough": 16}


def shards(tier, seed):
    if tier == "quick":
        n_sh, n, budget, ncuda, nmax = 8, 40, 50, 5, 8000
    else:
        n_sh, n, budget, ncuda, nmax = 14, 3000, 480, 60, 20000
    out = [{"name": f"dt{i}", "threads": 2, "timeout": budget * 4 + 300,
            "params": {"seed": seed, "shard": i, "n": n, "budget_s": budget, "nmax": nmax,
                       "backends": ["numba", "numpy"]}} for i in range(n_sh)]
    out.append({"name": "cudasim", "threads": 1, "timeout": budget * 4 + 300,
                "env": {"NUMBA_ENABLE_CUDASIM": "1"},
                "params": {"seed": seed, "shard": 100, "n": ncuda, "budget_s": budget * 3,
                           "nmax": 260, "backends": ["cuda"], "cuda": True}})
    return out


def poly_trend(rng, N, degree, amp):
    """Polynomial of exact degree `degree` (random lower coefficients), max|.| = amp."""
    t = np.linspace(-1.0, 1.0, N) if N > 1 else np.zeros(1)
    co = rng.uniform(-1, 1, size=degree + 1)
    co[-1] = rng.choice([-1, 1]) * rng.uniform(0.5, 1.0)  # leading coefficient (numpy: low->high)
    p = np.polynomial.polynomial.polyval(t, co)
    m = float(np.max(np.abs(p))) or 1.0
    return p * (amp / m)


def pure_power_trend(N, degree, amp):
    t = np.linspace(-1.0, 1.0, N)
    return amp * t ** degree


def invariance_case(rec, seedt, backend, nmax, cuda):
    from speckit.analysis import SpectrumAnalyzer
    rng = gen.rng_for(*seedt)
    N = int(round(gen.loguniform(rng, 64, nmax)))
    order = int(rng.choice([0, 1, 2]))
    cross = bool(rng.random() < 0.6)
    where = str(rng.choice(["x", "y", "both"])) if cross else "x"
    win = {"kind": "hann", "name": "hann"} if rng.random() < 0.5 else \
        {"kind": "kaiser", "psll": float(rng.choice([60, 120, 200]))}
    if rng.random() < 0.2:
        win = {"kind": "callable", "name": str(rng.choice(list(api.CALLABLES)))}
    sched = str(rng.choice(gen.SCHEDS))
    x = gen.record(rng, N, str(rng.choice(["white", "ar1", "walk", "sine+noise"])))
    y = gen.second_channel(rng, x, "mixed") if cross else None
    # the record's unit is arbitrary: the same samples 2^k times smaller or larger
    uexp = int(rng.choice([0, 0, 0, -200, -100, -40, 40, 130]))
    if uexp:
        x = x * 2.0 ** uexp
        y = y * 2.0 ** uexp if y is not None else None
        rec.count("invariance_cases_in_rescaled_units")
    rms = float(np.std(x)) or 1.0
    amp = rms * 10 ** rng.uniform(2, 8)
    deg = int(rng.integers(0, order + 1))
    tx = poly_trend(rng, N, deg, amp) if where in ("x", "both") else 0.0
    ty = poly_trend(rng, N, int(rng.integers(0, order + 1)), amp * 10 ** rng.uniform(-2, 1)) \
        if where in ("y", "both") else 0.0
    desc = {"kind": "invariance", "seed": list(seedt), "backend": backend, "N": N, "order": order,
            "cross": cross, "where": where, "win": win, "sched": sched, "amp_over_rms": amp / rms,
            "trend_degree": deg, "nmax": nmax, "cuda": cuda, "unit_exp": uexp}
    rec.case(desc, nontrivial=False)
    kw = dict(order=order, scheduler=sched, backend=backend,
              Lmin=int(rng.choice([1, 1, 4, 32])), Jdes=int(rng.choice([4, 12, 40])),
              Kdes=int(rng.choice([1, 5, 40])), olap=float(rng.choice([0.0, 0.5, 0.75])))
    if cuda:
        kw.update(Jdes=4, Kdes=2, Lmin=4, olap=0.5)
    elif rng.random() < 0.4:
        # plans whose first bins hold less than one (or half a) cycle per segment, and plans that
        # start higher up: the analyzer accepts any positive bmin
        kw["bmin"] = float(rng.choice([0.3, 0.45, 0.8, 2.5]))
    kw.update(api.win_args(win))
    fs = float(rng.choice([1.0, 100.0]))
    base = np.vstack([x, y]) if cross else x
    trended = np.vstack([x + tx, y + ty]) if cross else x + tx
    try:
        rt = SpectrumAnalyzer(trended, fs, **kw).compute()
    except ValueError as e:
        rec.blocked(f"analysis rejected: {e}")
        return
    if rt.nf >= 3 and np.any(np.asarray(rt.K) >= 2):
        rec.mark_nontrivial(desc)
    xb, yb = api.channels(np.asarray(base, dtype=float))
    xt, yt = api.channels(np.asarray(trended, dtype=float))
    idx = np.arange(rt.nf)
    if rt.nf > 30:
        idx = np.sort(rng.choice(rt.nf, size=30, replace=False))
    for j in idx:
        L = int(rt.L[j])
        st = np.asarray(rt.D[j]).astype(np.int64)
        w = api.harness_window(win, L)
        om = 2 * math.pi * float(rt.f[j]) / fs
        ref_b = refmodel.ref_stats(xb, yb, st, L, w, om, order)
        ref_t = refmodel.ref_stats(xt, yt, st, L, w, om, order)
        # values of the untrended record, bounds from both evaluations
        ref = dict(ref_b)
        for k in ("bXX", "bYY", "bmu", "bM2"):
            ref[k] = ref_b[k] + ref_t[k]
        got = (rt.XX[j], rt.YY[j] if cross else rt.XX[j], rt.XY[j].real, rt.XY[j].imag, rt.M2[j])
        bad, worst = refmodel.compare_stats(got, ref)
        rec.count(f"invariance_bins[{backend}]")
        rec.ratio(f"invariance_err_over_budget[{backend}]", worst)
        for name, err, bound in bad:
            rec.violation(f"trend-not-removed:{backend}",
                          f"order {order}, degree-{deg} trend on {where} (amp {amp / rms:.1e} x rms):"
                          f" bin {j} f={rt.f[j]:.5g} L={L} K={st.size}: {name} differs from the "
                          f"untrended estimate by {err:.3e} > budget {bound:.3e}; {sched}, {win}")
            break
    if not cuda:
        _single_bin_route(rec, rng, trended, xb, yb, xt, yt, fs, kw, win, order, backend, cross,
                          f"order {order}, degree-{deg} trend on {where} (amp {amp / rms:.1e} x rms), {win}")


def _single_bin_route(rec, rng, trended, xb, yb, xt, yt, fs, kw, win, order, backend, cross, tagmsg):
    """The same statement through compute_single_bin: one bin of the trended record, at a requested
    L or resolution, against the reference model evaluated on the untrended record."""
    from speckit.analysis import SpectrumAnalyzer
    N = xb.shape[0]
    L = int(min(N, rng.choice([order + 2, 8, 64, max(order + 2, N // 3), N])))
    L = max(L, order + 2)
    fq = float(rng.uniform(0.0, 0.5)) * fs
    try:
        an = SpectrumAnalyzer(trended, fs, **kw)
        r = an.compute_single_bin(fq, L=L) if rng.random() < 0.7 else \
            an.compute_single_bin(fq, fres=fs / L)
    except ValueError as e:
        rec.blocked(f"single-bin rejected: {e}")
        return
    Lr = int(r.L[0])
    st = np.asarray(r.D[0]).astype(np.int64)
    w = api.harness_window(win, Lr)
    om = 2 * math.pi * float(r.f[0]) / fs
    ref_b = refmodel.ref_stats(xb, yb, st, Lr, w, om, order)
    ref_t = refmodel.ref_stats(xt, yt, st, Lr, w, om, order)
    ref = dict(ref_b)
    for k in ("bXX", "bYY", "bmu", "bM2"):
        ref[k] = ref_b[k] + ref_t[k]
    got = (r.XX[0], r.YY[0] if cross else r.XX[0], r.XY[0].real, r.XY[0].imag, r.M2[0])
    bad, worst = refmodel.compare_stats(got, ref)
    rec.count(f"invariance_single_bin[{backend}]")
    rec.ratio(f"invariance_err_over_budget[{backend}]", worst)
    for name, err, bound in bad:
        rec.violation(f"trend-not-removed:{backend}",
                      f"compute_single_bin(f={fq:.5g}, L={Lr}), {tagmsg}: {name} differs from the "
                      f"untrended estimate by {err:.3e} > budget {bound:.3e}")
        break


def sensitivity_case(rec, seedt, backend):
    """A degree p+1 trend must change the low bins; order -1 must see an added constant."""
    from speckit.analysis import SpectrumAnalyzer
    rng = gen.rng_for(*seedt)
    N = int(rng.integers(200, 4000))
    order = int(rng.choice([-1, 0, 1, 2]))
    cross = bool(rng.random() < 0.5)
    x = gen.record(rng, N, "white")
    y = gen.second_channel(rng, x, "mixed")
    amp = float(rng.choice([1e4, 1e4, 1e9, 3e10])) * float(np.std(x))
    which = str(rng.choice(["x", "y"])) if cross else "x"
    tr = pure_power_trend(N, order + 1, amp)
    desc = {"kind": "sensitivity", "seed": list(seedt), "backend": backend, "N": N,
            "order": order, "cross": cross, "which": which, "amp_over_rms": amp / float(np.std(x))}
    rec.case(desc, nontrivial=True)
    kw = dict(order=order, scheduler=str(rng.choice(gen.SCHEDS)), backend=backend, win="hann",
              Jdes=20, Kdes=10, olap=0.5)
    fs = 1.0
    d0 = np.vstack([x, y]) if cross else x
    if cross:
        d1 = np.vstack([x + tr, y]) if which == "x" else np.vstack([x, y + tr])
    else:
        d1 = x + tr
    try:
        r0 = SpectrumAnalyzer(d0, fs, **kw).compute()
        r1 = SpectrumAnalyzer(d1, fs, **kw).compute()
    except ValueError as e:
        rec.blocked(f"analysis rejected: {e}")
        return
    b = np.asarray(r0.b)
    L = np.asarray(r0.L)
    sel = (b <= (1.5 if order == -1 else 3.0)) & (L >= N / 2)
    if not np.any(sel):
        rec.count("sensitivity_no_low_bin")
        return
    stat0 = r0.YY if (cross and which == "y") else r0.XX
    stat1 = r1.YY if (cross and which == "y") else r1.XX
    sw = np.array([float(np.sum(np.hanning(int(l)))) for l in L[sel]])
    change = np.abs(stat1[sel] - stat0[sel]) / (amp * sw) ** 2
    thr = 1e-3 if order == -1 else 1e-6
    rec.count("order_minus1_constant_checked" if order == -1 else "sensitivity_checked")
    rec.ratio("sensitivity_thr_over_change", thr / max(float(change.max()), 1e-300))
    if not (change.max() > thr):
        what = "an added constant" if order == -1 else f"a degree-{order + 1} trend"
        rec.violation(f"over-detrending:{backend}",
                      f"order {order}: {what} (amp {amp / float(np.std(x)):.0e} x rms) changed the low bins by only "
                      f"{change.max():.3e} x (amp*sum w)^2 (expected > {thr:g}): detrending removes "
                      f"more than a degree-{max(order, 0)} polynomial" if order >= 0 else
                      f"order -1 must not detrend, but an added constant changed the low bins by "
                      f"only {change.max():.3e} x (amp*sum w)^2")


def run_shard(params, rec):
    cuda = params.get("cuda", False)
    if cuda:
        from speckit import core
        if not core._CUDA_ENABLED:
            rec.note("CUDA simulator not enabled")
            return
    t0 = time.time()
    for i in range(params["n"]):
        if time.time() - t0 > params["budget_s"]:
            rec.note(f"time budget reached after {i}")
            break
        for be in params["backends"]:
            invariance_case(rec, [params["seed"], params["shard"], "inv", i], be, params["nmax"],
                            cuda)
            if not cuda:
                sensitivity_case(rec, [params["seed"], params["shard"], "sens", i], be)


def replay(case, rec):
    if case["kind"] == "invariance":
        invariance_case(rec, case["seed"], case["backend"], case["nmax"], case.get("cuda", False))
    else:
        sensitivity_case(rec, case["seed"], case["backend"])
