"""C20 - derived result quantities and exports are consistent views of one estimate."""
import copy
import pickle
import time

import numpy as np

from .. import api, gen, resultcheck, planwork

ID = "C20"
LEVEL = "exploration"
RULE = ("Results {auto, cross} x {full plan with ragged D, single-bin, plan whose bins share one K "
        "(olap=0, Kdes=1, large Lmin, band), all-K=1 plan (Lmin=N)}: (1) the documented relation "
        "table (asd^2=psd, ps=psd*ENBW, cs=csd*ENBW, cf=|Hxy|, cf_db, deg/rad, conjugates, base "
        "densities, ENBW) at 1e-12, None-ness by analysis type, unknown names raise "
        "AttributeError; (2) get_measurement: tabulated value at grid frequencies, linear in re/im "
        "in between, clamped outside, scalar in -> scalar out, for real and complex quantities; "
        "(3) to_dataframe(): never raises, index = f, columns = exactly the non-None per-bin 1-D "
        "attributes, values equal; (4) random operation sequences (read attribute, copy, deepcopy, "
        "pickle round-trip, to_dataframe, get_measurement) of length 3-10: every attribute of "
        "every derived object equals the value a fresh twin result gives, and attribute values do "
        "not depend on the order of first access.  Distinct by case descriptor.")
ASSUMPTIONS = ["relation table transcribed from the SpectrumResult documentation",
               "D (ragged starts) is optional in the DataFrame; if present it must equal per bin"]
DECIDING_COUNTERS = ["c20_results", "c20_relations_checked", "measurement_queries",
                     "dataframes_checked", "roundtrips", "op_sequences"]
MIN_NONTRIVIAL = {"quick": 100, "thorough": 1500}
JOBS = {"quick": 8, "thorough": 16}

SHAPES = ["full", "full", "single", "uniformK", "allK1", "one-bin-band", "two-bin-band",
          "three-bin-band"]
# the per-bin quantities a result documents (auto, cross, single-bin): the export may contain
# these and nothing else, however many bins the result has
KNOWN_COLUMNS = {
    "D", "ENBW", "G", "Gxx", "Gxx_dev", "Gxx_emp_dev", "Gxx_error", "Gxy", "Gyy", "Gyy_dev",
    "Gyy_error", "K", "L", "M2", "O", "S12", "S2", "XX", "XX_mean", "XY", "XY_M2", "XY_emp_dev",
    "XY_emp_var", "YY", "YY_mean", "asd", "b", "compute_t", "m", "i", "navg", "ps", "psd", "r", "f",
    "Gxy_dev", "Gxy_emp_dev", "Gxy_error", "Gyx", "GyyCx", "GyyRx", "GyySx", "Hxy",
    "Hxy_deg_error", "Hxy_dev", "Hxy_mag_error", "Hxy_rad_error", "Hyx", "ccoh", "cf", "cf_db",
    "cf_deg", "cf_deg_unwrapped", "cf_rad", "cf_rad_unwrapped", "coh", "coh_dev", "coh_error", "cs",
    "csd", "tf"}


def _base_shards(tier, seed):
    if tier == "quick":
        n_sh, n, budget = 8, 40, 45
    else:
        n_sh, n, budget = 16, 1200, 420
    return [{"name": f"res{i}", "threads": 2, "timeout": budget * 4 + 300,
             "params": {"seed": seed, "shard": i, "n": n, "budget_s": budget}}
            for i in range(n_sh)]


def make_result(seedt):
    """Returns (factory, fs, desc): factory() builds an independent, identical result."""
    from speckit.analysis import SpectrumAnalyzer
    rng = gen.rng_for(*seedt)
    shape = str(rng.choice(SHAPES))
    cross = bool(rng.random() < 0.55)
    N = int(rng.integers(120, 4000))
    x = gen.record(rng, N, str(rng.choice(["white", "ar1", "walk", "sine+noise"])))
    second = gen.second_channel(rng, x, "mixed")
    if cross and rng.random() < 0.12:
        second = np.zeros(N)            # a dead second channel: Hxy = 0 exactly at every bin
    elif cross and rng.random() < 0.08:
        x = np.full(N, float(rng.choice([0.0, 3.0])))   # a dead / stuck FIRST channel
    data = np.vstack([x, second]) if cross else x
    fs = float(rng.choice([1.0, 2.0, 250.0]))
    kw = dict(order=int(rng.choice([-1, 0, 1, 2])), scheduler=str(rng.choice(gen.SCHEDS)),
              backend=str(rng.choice(["numba", "numpy"])))
    kw.update(api.win_args(api.random_window(rng)))
    single = None
    if shape == "full":
        kw.update(Jdes=int(rng.choice([8, 30, 80])), Kdes=int(rng.choice([2, 20])),
                  olap=float(rng.choice([0.3, 0.5, 0.75])))
    elif shape == "single":
        single = api.single_bin_request(rng, fs, N) if rng.random() < 0.6 else \
            (float(rng.uniform(0.01, 0.49)) * fs, {"L": int(min(N, rng.choice([1, 7, 64, N])))}, "interior/L")
        kw.update(olap=0.5)
    elif shape == "uniformK":
        kw.update(olap=0.0, Kdes=1, Lmin=int(N // rng.choice([2, 3, 4])), Jdes=20)
    elif shape == "allK1":
        kw.update(olap=float(rng.choice([0.0, 0.5])), Lmin=N, Jdes=15, Kdes=1)
    elif shape in ("one-bin-band", "two-bin-band", "three-bin-band"):
        kw.update(Jdes=20, Kdes=5, olap=0.5)
    desc = {"kind": "result", "seed": list(seedt), "shape": shape, "cross": cross, "N": N,
            "order": kw["order"], "sched": kw["scheduler"], "backend": kw["backend"]}

    def factory():
        kw2 = dict(kw)
        if shape in ("one-bin-band", "two-bin-band", "three-bin-band"):
            f = SpectrumAnalyzer(data, fs, **kw).plan()["f"]
            j = len(f) // 2
            extra_bins = {"one-bin-band": 0, "two-bin-band": 1, "three-bin-band": 2}[shape]
            kw2["band"] = (float(f[j]), float(f[min(j + extra_bins, len(f) - 1)]))
        an = SpectrumAnalyzer(data, fs, **kw2)
        if single is not None:
            return an.compute_single_bin(single[0], **single[1])
        return an.compute()
    return factory, fs, desc


def data_names(res):
    out = []
    for nm in dir(res):
        if nm.startswith("_") or nm in ("compute_t",):
            continue
        try:
            v = getattr(res, nm)
        except AttributeError:
            continue
        if callable(v):
            continue
        out.append(nm)
    return out


def same(a, b):
    if a is None or b is None:
        return a is None and b is None
    if isinstance(a, np.ndarray) or isinstance(b, np.ndarray):
        a, b = np.asarray(a), np.asarray(b)
        if a.shape != b.shape:
            return False
        if a.dtype == object or b.dtype == object:
            return all(np.array_equal(np.asarray(u), np.asarray(v)) for u, v in zip(a, b))
        return bool(np.array_equal(a, b, equal_nan=True))
    if isinstance(a, dict) or isinstance(b, dict):
        return True  # configuration dictionaries are not part of the estimate
    try:
        return bool(a == b) or (a != a and b != b)
    except Exception:
        return True


def snapshot(res, names):
    return {nm: getattr(res, nm) for nm in names}


def compare_to(ref_snap, obj, names, rec, what):
    for nm in names:
        try:
            v = getattr(obj, nm)
        except BaseException as e:
            rec.violation(f"roundtrip-attribute-raises", f"{what}: getattr(.., '{nm}') raised "
                                                         f"{type(e).__name__}: {e}")
            return False
        if not same(ref_snap[nm], v):
            rec.violation("value-changed", f"{what}: attribute '{nm}' differs from the value a "
                                           f"fresh result gives")
            return False
    return True


def check_measurement(res, rec, rng):
    f = np.asarray(res.f)
    names = ["Gxx", "ENBW"] + (["Gxy", "Hxy", "coh", "cf"] if res.iscsd else ["asd", "psd"])
    # plus a random handful of ALL per-bin numeric attributes (real and complex)
    pool = []
    for nm in data_names(res):
        v = getattr(res, nm)
        if isinstance(v, np.ndarray) and v.shape == f.shape and v.dtype.kind in "fc" \
                and np.all(np.isfinite(v)) and nm not in names and nm != "f":
            pool.append(nm)
    if pool:
        names = names + [str(n) for n in rng.choice(pool, size=min(5, len(pool)), replace=False)]
    # attributes whose tabulated values are legitimately non-finite at some bins (cf_db = -inf for
    # Hxy = 0, error bars = inf for zero coherence): a grid frequency / a frequency outside the
    # grid must still return the tabulated value
    for nm in data_names(res):
        v = getattr(res, nm)
        if isinstance(v, np.ndarray) and v.shape == f.shape and v.dtype.kind == "f" \
                and not np.all(np.isfinite(v)) and not np.any(np.isnan(v)):
            rec.count("measurement_queries_nonfinite_table")
            got = np.asarray(res.get_measurement(f, nm))
            fin = np.isfinite(v)
            ok = got.shape == v.shape and np.array_equal(got[~fin], v[~fin]) \
                and np.allclose(got[fin], v[fin], rtol=1e-12, atol=0)
            j = int(np.nonzero(~fin)[0][0])
            gj = res.get_measurement(float(f[j]), nm)
            lo = res.get_measurement(float(f[0]) * 0.5 - 1.0, nm)
            hi = res.get_measurement(float(f[-1]) * 2 + 1.0, nm)

            def _same(a, b):
                return (a == b) or (np.isfinite(b) and abs(a - b) <= 1e-12 * abs(b))
            if not (ok and _same(gj, v[j]) and _same(lo, v[0]) and _same(hi, v[-1])):
                rec.violation("measurement-nonfinite-table",
                              f"get_measurement of '{nm}' (tabulated {v[j]!r} at f[{j}]): grid query "
                              f"gives {gj!r}, below-grid {lo!r} (table {v[0]!r}), above-grid {hi!r} "
                              f"(table {v[-1]!r})")
    for which in names:
        tab = np.asarray(getattr(res, which))
        rec.count("measurement_queries")
        # grid
        got = res.get_measurement(f, which)
        if not np.allclose(got, tab, rtol=1e-12, atol=0):
            rec.violation("measurement-grid", f"get_measurement(f, '{which}') != tabulated values")
        j = int(rng.integers(0, len(f)))
        g = res.get_measurement(float(f[j]), which)
        if isinstance(g, np.ndarray):
            rec.violation("measurement-scalar", f"scalar frequency returned an array for '{which}'")
        elif abs(g - tab[j]) > 1e-12 * abs(tab[j]):
            rec.violation("measurement-grid", f"get_measurement(f[{j}], '{which}')={g!r} != "
                                              f"{tab[j]!r}")
        # between
        if len(f) >= 2:
            t = rng.uniform(0.05, 0.95, size=len(f) - 1)
            fq = f[:-1] + t * np.diff(f)
            exp = tab[:-1] + t * (tab[1:] - tab[:-1])
            got = res.get_measurement(fq, which)
            scale = np.maximum(np.maximum(np.abs(tab[:-1]), np.abs(tab[1:])), 1e-300)
            if np.any(np.abs(got - exp) > 1e-9 * scale):
                rec.violation("measurement-interpolation",
                              f"get_measurement between grid points is not linear in re/im for "
                              f"'{which}' (max dev {np.max(np.abs(got - exp) / scale):.3e})")
        # queries that resemble the grid in a summary only: as many points as the grid and the
        # same end points (linear / geometric resampling), the grid reversed, the grid with one
        # interior point moved
        if len(f) >= 3 and np.all(np.isfinite(tab)):
            qs = [np.linspace(float(f[0]), float(f[-1]), len(f)), np.asarray(f)[::-1].copy()]
            if f[0] > 0:
                qs.append(np.geomspace(float(f[0]), float(f[-1]), len(f)))
            q1 = np.asarray(f, dtype=float).copy()
            jm = int(rng.integers(1, len(f) - 1))
            q1[jm] = 0.5 * (q1[jm - 1] + q1[jm])
            qs.append(q1)
            for q in qs:
                q[0], q[-1] = (float(f[0]), float(f[-1])) if q[0] <= q[-1] else (float(f[-1]), float(f[0]))
                exp = np.interp(q, f, tab.real) + (1j * np.interp(q, f, tab.imag)
                                                   if np.iscomplexobj(tab) else 0.0)
                got = np.asarray(res.get_measurement(q, which))
                scale = max(float(np.max(np.abs(tab))), 1e-300)
                rec.count("measurement_queries_grid_lookalike")
                if got.shape != exp.shape or np.any(np.abs(got - exp) > 1e-9 * scale):
                    rec.violation("measurement-interpolation",
                                  f"get_measurement('{which}') at {len(q)} points with the grid's end "
                                  f"points but another interior is not the linear interpolant (max dev "
                                  f"{float(np.max(np.abs(got - exp))) / scale:.3e} of the largest value)")
                    break
        # list input, exact end points
        ends = np.asarray(res.get_measurement([float(f[0]), float(f[-1])], which))
        if ends.shape != (2,) or abs(ends[0] - tab[0]) > 1e-12 * abs(tab[0]) \
                or abs(ends[1] - tab[-1]) > 1e-12 * abs(tab[-1]):
            rec.violation("measurement-grid", f"get_measurement([f0, f_last], '{which}') != end values")
        # outside: clamped
        lo = res.get_measurement(float(f[0]) * 0.5 - 1.0, which)
        hi = res.get_measurement(float(f[-1]) * 2 + 1.0, which)
        if abs(lo - tab[0]) > 1e-12 * abs(tab[0]) or abs(hi - tab[-1]) > 1e-12 * abs(tab[-1]):
            rec.violation("measurement-clamp", f"get_measurement outside the grid is not clamped "
                                               f"for '{which}'")


def check_dataframe(res, rec, what=""):
    try:
        df = res.to_dataframe()
    except BaseException as e:
        rec.violation("to_dataframe-raises", f"{what}to_dataframe() raised {type(e).__name__}: {e} "
                                             f"(nf={res.nf})")
        return
    rec.count("dataframes_checked")
    f = np.asarray(res.f)
    if len(df) != len(f) or not np.array_equal(np.asarray(df.index), f):
        rec.violation("dataframe-index", f"{what}DataFrame index is not the frequency vector")
        return
    n = len(f)
    expected = set()
    for nm in data_names(res):
        v = getattr(res, nm)
        if nm == "f" or v is None:
            continue
        if isinstance(v, np.ndarray) and v.shape == (n,) and nm != "D":
            expected.add(nm)
    cols = set(df.columns)
    missing = expected - cols
    extra = cols - expected - {"D", "compute_t"}  # timings are per-bin data too
    undocumented = cols - KNOWN_COLUMNS
    if undocumented:
        rec.violation("dataframe-undocumented-column",
                      f"{what}DataFrame (nf={n}) has column(s) {sorted(undocumented)} that are not "
                      f"documented per-bin quantities of a result")
    if missing:
        rec.violation("dataframe-missing-column", f"{what}per-bin attribute(s) {sorted(missing)} "
                                                  f"missing from the DataFrame")
    if extra:
        rec.violation("dataframe-extra-column", f"{what}DataFrame has column(s) {sorted(extra)} "
                                                f"that are not per-bin attributes of this result")
    for nm in sorted(cols & expected):
        if not same(np.asarray(df[nm]), np.asarray(getattr(res, nm))):
            rec.violation("dataframe-value", f"{what}column '{nm}' != attribute")
            break
    if "D" in cols:
        for j in range(n):
            if not np.array_equal(np.asarray(df["D"].iloc[j]), np.asarray(res.D[j])):
                rec.violation("dataframe-value", f"{what}column 'D' row {j} != D[{j}]")
                break


def one_case(rec, seedt):
    rng = gen.rng_for(*seedt, "ops")
    factory, fs, desc = make_result(seedt)
    rec.case(desc, nontrivial=True)
    res = api.attempt(rec, factory, "building the result")
    if res is None:
        return
    rec.distinct("shapes", f"{desc['shape']}/{desc['cross']}")
    tag = f"[{desc['shape']}, cross={desc['cross']}] "
    resultcheck.c20_relations(res, rec, fs, tag)
    check_measurement(res, rec, rng)
    check_dataframe(res, rec, tag)

    # --- canonical snapshot from a fresh twin -------------------------------------
    twin = factory()
    names = data_names(twin)
    ref = snapshot(twin, names)

    # --- order of first access ----------------------------------------------------------
    for _ in range(2):
        fresh = factory()
        order = list(names)
        rng.shuffle(order)
        for nm in order:
            v = getattr(fresh, nm)
            if not same(ref[nm], v):
                rec.violation("access-order-dependence",
                              f"{tag}attribute '{nm}' read after {order[:order.index(nm)][-3:]} "
                              f"differs from its value on a fresh result")
                break
        else:
            rec.count("access_orders")
            compare_to(ref, fresh, names, rec, tag + "second read after a random access order")

    # --- random operation sequences ------------------------------------------------------
    for s in range(3):
        obj = factory()
        ops = []
        for _ in range(int(rng.integers(3, 11))):
            op = str(rng.choice(["read", "read", "copy", "deepcopy", "pickle", "dataframe",
                                 "measure", "len-repr", "plot"]))
            ops.append(op)
            try:
                if op == "read":
                    getattr(obj, str(rng.choice(names)))
                elif op == "copy":
                    obj = copy.copy(obj)
                    rec.count("roundtrips")
                elif op == "deepcopy":
                    obj = copy.deepcopy(obj)
                    rec.count("roundtrips")
                elif op == "pickle":
                    obj = pickle.loads(pickle.dumps(obj, protocol=int(rng.choice([2, 4, 5]))))
                    rec.count("roundtrips")
                elif op == "dataframe":
                    obj.to_dataframe()
                elif op == "measure":
                    obj.get_measurement(float(obj.f[0]), "Gxx")
                elif op == "plot":
                    import matplotlib
                    matplotlib.use("Agg")
                    import matplotlib.pyplot as plt
                    kinds = ["coh", "csd", "cf", "bode"] if obj.iscsd else ["psd", "asd"]
                    try:
                        obj.plot(str(rng.choice(kinds)), errors=bool(rng.random() < 0.5))
                    except ValueError:
                        pass  # "No finite data to plot" for an all-zero quantity is documented
                    finally:
                        plt.close("all")
                elif op == "len-repr":
                    if len(obj) != len(obj.f) or "SpectrumResult" not in repr(obj):
                        rec.violation("len-repr", f"{tag}len()/repr() inconsistent with the result")
            except BaseException as e:
                rec.violation(f"operation-raises:{op}", f"{tag}after {ops[:-1]}: {op} raised "
                                                        f"{type(e).__name__}: {str(e)[:200]}")
                break
        else:
            rec.count("op_sequences")
            if compare_to(ref, obj, names, rec, f"{tag}after operations {ops}"):
                if any(o in ("copy", "deepcopy", "pickle") for o in ops):
                    check_dataframe(obj, rec, f"{tag}after {ops}: ")


def run_shard(params, rec):
    if params.get("kind") == "repo-tests":
        # thorough tier: the repository's own tests as a workload, every result they produce
        # checked by this property's result-level monitor (speckit_verif.pytest_plugin)
        return planwork.run_repo_tests(ID, rec, tests=planwork.RESULT_TESTS)
    t0 = time.time()
    for i in range(params["n"]):
        if time.time() - t0 > params["budget_s"]:
            rec.note(f"time budget reached after {i}")
            break
        one_case(rec, [params["seed"], params["shard"], i])


def replay(case, rec):
    one_case(rec, case["seed"])


def shards(tier, seed):
    out = list(_base_shards(tier, seed))
    if tier == "thorough":
        out.append({"name": "repo-tests", "threads": 4, "timeout": 2400,
                    "params": {"kind": "repo-tests"}})
    return out
