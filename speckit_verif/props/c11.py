"""C11 - empirical error estimates are the segment scatter in spectral units."""
import time

import numpy as np

from .. import api, gen, refmodel, resultcheck, planwork

ID = "C11"
LEVEL = "exploration"
RULE = ("Random one/two-channel analyses (all schedulers, windows, orders, backends numba/numpy, "
        "records incl. nearly deterministic ones: strong sinusoid + 1e-6..1e-12 noise, where a "
        "one-pass variance would cancel): XY_M2 of every sampled bin equals the population "
        "variance of the reference per-segment cross products (rounding budget); XY_emp_var = "
        "M2/navg, XY_emp_dev = sqrt, Gxx_emp_dev (auto) / Gxy_emp_dev (cross) = sqrt(emp_var)*2/"
        "(fs*S2) at 1e-12; zero for K=1; never negative; None for the other analysis type. "
        "Monte-Carlo: mean over realisations of empirical/analytic deviation for white Gaussian "
        "noise with n>=400 independent segments inside [0.93,1.07].  Distinct by case descriptor; "
        "non-trivial: some bin with K>=2.")
ASSUMPTIONS = [
    "rounding budget of DESIGN section 3 for M2 (interval propagation through the scatter)",
    "Monte-Carlo band [0.93,1.07] (exploration: 0.99-1.03)",
]
DECIDING_COUNTERS = ["c11_bins", "bins_compared", "c11_single_segment_bins", "mc_cells"]
MIN_NONTRIVIAL = {"quick": 150, "thorough": 2500}
JOBS = {"quick": 10, "thorough": 16}


def _base_shards(tier, seed):
    if tier == "quick":
        n_sh, n, budget, nmax = 6, 120, 45, 8000
        cells = [("auto", None, 400), ("cross", 0.2, 400), ("cross", 0.7, 400)]
        R = 16
    else:
        n_sh, n, budget, nmax = 12, 3000, 450, 60000
        cells = [(m, g, nn) for (m, g) in (("auto", None), ("cross", 0.2), ("cross", 0.7))
                 for nn in (400, 1600)]
        R = 40
    out = [{"name": f"emp{i}", "threads": 2, "timeout": budget * 4 + 300,
            "params": {"kind": "ana", "seed": seed, "shard": i, "n": n, "budget_s": budget,
                       "nmax": nmax}} for i in range(n_sh)]
    for k, (mode, g2, nn) in enumerate(cells):
        out.append({"name": f"mc{k}", "threads": 2, "timeout": 3000,
                    "params": {"kind": "mc", "seed": seed, "shard": 50 + k, "mode": mode,
                               "g2": g2, "n": nn, "R": R}})
    return out


def analysis_case(rec, seedt, nmax):
    from speckit.analysis import SpectrumAnalyzer
    rng = gen.rng_for(*seedt)
    desc = api.random_analysis(rng, nmax=nmax, allow_band=False)
    desc.update(kind="analysis", seed=list(seedt), nmax=nmax)
    special = rng.random() < 0.3
    data = api.build_data(desc, seedt)
    if special:
        # nearly identical per-segment products: a strong line far above a tiny noise floor
        N = desc["N"]
        t = np.arange(N)
        eps = 10.0 ** rng.uniform(-12, -6)
        f0 = float(rng.uniform(0.05, 0.4))
        x = np.sin(2 * np.pi * f0 * t) + eps * rng.standard_normal(N)
        if desc["cross"]:
            y = 0.7 * np.sin(2 * np.pi * f0 * t + 0.4) + eps * rng.standard_normal(N)
            data = np.vstack([x, y])
        else:
            data = x
        desc["rec"] = f"line+{eps:.1e}noise"
    rec.case(desc, nontrivial=False)
    res = api.attempt(rec, lambda: SpectrumAnalyzer(data, desc["fs"],
                                                    **api.analyzer_kwargs(desc)).compute())
    if res is None:
        return
    if np.any(np.asarray(res.K) >= 2):
        rec.mark_nontrivial(desc)
    tag = f"[{desc['backend']}, cross={desc['cross']}, {desc['rec']}] "
    resultcheck.c11_identities(res, rec, desc["fs"], tag)
    api.check_result(res, data, desc, rec, f"scatter[{desc['backend']}]", max_bins=25, rng=rng)
    an = SpectrumAnalyzer(data, desc["fs"], **api.analyzer_kwargs(desc))
    for _ in range(2):
        fq, skw, lab = api.single_bin_request(rng, desc["fs"], desc["N"])
        r1 = api.attempt(rec, lambda: an.compute_single_bin(fq, **skw))
        if r1 is not None:
            rec.distinct("single_bin_forms", lab)
            resultcheck.c11_identities(r1, rec, desc["fs"], f"[single-bin {lab}] ")
            api.check_result(r1, data, desc, rec, f"scatter-single[{desc['backend']}]")


def cancelling_case(rec, seedt):
    """Segments whose cross-products cancel EXACTLY in the mean while they scatter: channel 1
    repeats with the segment shift, channel 2 repeats with alternating sign, the number of
    segments is even.  The averaged cross-product is exactly 0, its population variance is not."""
    from speckit.analysis import SpectrumAnalyzer
    rng = gen.rng_for(*seedt)
    L = int(rng.choice([16, 50, 128, 301]))
    K = 2 * int(rng.integers(1, 7))
    N = K * L
    p, q = rng.standard_normal(L), rng.standard_normal(L)
    auto = bool(rng.random() < 0.25)
    x = np.tile(p, K)
    y = np.tile(np.concatenate([q, -q]), K // 2)
    order = int(rng.choice([-1, 0, 1, 2]))
    backend = str(rng.choice(["numba", "numpy"]))
    win = {"kind": "hann", "name": "hann"} if rng.random() < 0.5 else \
        {"kind": "kaiser", "psll": float(rng.choice([60, 120, 200]))}
    fs = float(rng.choice([1.0, 48.0]))
    desc = {"kind": "cancelling", "seed": list(seedt), "L": L, "K": K, "order": order,
            "backend": backend, "win": win, "cross": not auto, "N": N, "fs": fs}
    rec.case(desc, nontrivial=True)
    data = y if auto else np.vstack([x, y])
    kw = dict(order=order, backend=backend, olap=0.0)
    kw.update(api.win_args(win))
    fq = fs * float(rng.uniform(0.05, 0.45))
    r = api.attempt(rec, lambda: SpectrumAnalyzer(data, fs, **kw).compute_single_bin(fq, L=L))
    if r is None:
        return
    if int(r.K[0]) != K or not np.array_equal(np.asarray(r.D[0]), np.arange(K) * L):
        rec.blocked("segmentation is not the K back-to-back segments this case needs")
        return
    rec.count("exactly_cancelling_means")
    resultcheck.c11_identities(r, rec, fs, f"[cancelling segments, {backend}, order {order}] ")
    d = dict(desc, sched="lpsd", Lmin=1, Jdes=10, Kdes=2, bmin=1.0, olap=0.0, rec="cancelling")
    api.check_result(r, data, d, rec, f"scatter-single[{backend}]")


def mc_cell(rec, params):
    from speckit.analysis import SpectrumAnalyzer
    mode, g2, n, R = params["mode"], params["g2"], params["n"], params["R"]
    L = 64
    N = n * L
    desc = {"kind": "mc", "mode": mode, "g2": g2, "n": n, "R": R,
            "seed": [params["seed"], params["shard"]]}
    rec.case(desc, nontrivial=True)
    rng = gen.rng_for(params["seed"], "c11mc", mode, g2, n)
    ratios = []
    for _ in range(R):
        x = rng.standard_normal(N)
        if mode == "auto":
            r = SpectrumAnalyzer(x, 1.0, olap=0.0, win="hann", order=-1).compute_single_bin(
                12.0 / L, L=L)
            ratios.append(float(r.Gxx_emp_dev[0]) / float(r.Gxx_dev[0]))
        else:
            y = x + np.sqrt(1 / g2 - 1) * rng.standard_normal(N)
            r = SpectrumAnalyzer(np.vstack([x, y]), 1.0, olap=0.0, win="hann",
                                 order=-1).compute_single_bin(12.0 / L, L=L)
            ratios.append(float(r.Gxy_emp_dev[0]) / float(r.Gxy_dev[0]))
    rec.count("mc_cells")
    m = float(np.mean(ratios))
    rec.ratio("mc_mean_ratio_offset_over_0.07", abs(m - 1) / 0.07)
    rec.note(f"MC {mode} g2={g2} n={n} R={R}: mean empirical/analytic deviation = {m:.4f} "
             f"(range {min(ratios):.3f}..{max(ratios):.3f})")
    if not (0.93 <= m <= 1.07):
        rec.violation(f"mc-empirical-vs-analytic:{mode}",
                      f"{mode} g2={g2} n={n}: mean empirical/analytic deviation {m:.4f} outside "
                      f"[0.93,1.07] over {R} realisations")


def run_shard(params, rec):
    if params.get("kind") == "repo-tests":
        # thorough tier: the repository's own tests as a workload, every result they produce
        # checked by this property's result-level monitor (speckit_verif.pytest_plugin)
        return planwork.run_repo_tests(ID, rec, tests=planwork.RESULT_TESTS)
    if params["kind"] == "mc":
        return mc_cell(rec, params)
    t0 = time.time()
    for i in range(params["n"]):
        if time.time() - t0 > params["budget_s"]:
            rec.note(f"time budget reached after {i}")
            break
        analysis_case(rec, [params["seed"], params["shard"], i], params["nmax"])
        if i % 4 == 0:
            cancelling_case(rec, [params["seed"], params["shard"], "cancel", i])


def replay(case, rec):
    if case["kind"] == "mc":
        mc_cell(rec, {"mode": case["mode"], "g2": case["g2"], "n": case["n"], "R": case["R"],
                      "seed": case["seed"][0], "shard": case["seed"][1]})
    elif case["kind"] == "cancelling":
        cancelling_case(rec, case["seed"])
    else:
        analysis_case(rec, case["seed"], case.get("nmax", 8000))


def shards(tier, seed):
    out = list(_base_shards(tier, seed))
    if tier == "thorough":
        out.append({"name": "repo-tests", "threads": 4, "timeout": 2400,
                    "params": {"kind": "repo-tests"}})
    return out
