"""C01 - per-bin statistics equal the windowed-DFT definition on every backend."""
import math
import time

import numpy as np

from .. import gen, guard, refmodel
from ..probes import KernelProbe

ID = "C01"
LEVEL = "exploration"
RULE = ("Kernel-level differential monitor: seeded cases = record class x L x start pattern x "
        "window class x omega class x detrend order x auto/cross; every array handed to a backend "
        "function is a view inside a red-zone buffer (pads 1e200) and is fingerprinted before and "
        "after the call; the returned (MXX, MYY, mu_r, mu_i, M2) is compared with a direct "
        "windowed-DFT evaluation (refmodel.ref_stats) within the calibrated rounding budget. "
        "Numba and NumPy backends in ordinary shards, the CUDA host wrappers + kernels in a "
        "NUMBA_ENABLE_CUDASIM=1 shard, the kernels' uncompiled Python source (py_func) as a "
        "bounds-checked third opinion on small cases, and every dispatcher call observed by a "
        "probe while SpectrumAnalyzer runs.  Distinct by full case descriptor; non-trivial when "
        "K>=2, L>=4, (cross mode or order>=0) and the record is not all-zero.")
ASSUMPTIONS = [
    "rounding budget of DESIGN section 3 (10x the worst error measured on the unchanged tree)",
    "CUDA kernels are executed by Numba's CUDA simulator (no GPU present): index arithmetic, "
    "detrending, sign conventions, launch geometry and reduction are exercised; PTX code "
    "generation and device fastmath are not",
    "red-zone detection has ASan's blind spot: a read that jumps over the 4096-element pad",
]
# Deciding: the public-API route (works whatever the private kernels are called).  The
# kernel-level, CUDA-simulator, interpreted-kernel and probe routes add reach and are reported in
# the evidence counters; post_check() makes the run inconclusive if NONE of them was reached.
DECIDING_COUNTERS = ["bins_compared"]
MIN_NONTRIVIAL = {"quick": 400, "thorough": 4000}
JOBS = {"quick": 10, "thorough": 16}

L_QUICK = [1, 2, 3, 4, 5, 7, 8, 16, 31, 64, 100, 257, 1024, 1025, 2049, 4096, 4097]
L_THOROUGH = L_QUICK + [16384, 65536, 262144, (1 << 20) + 7, 3 << 19]
K_SET = [1, 2, 3, 17, 256, 5000]


def shards(tier, seed):
    out = []
    if tier == "quick":
        n_main, n_per, n_cuda, budget = 8, 260, 70, 70
    else:
        n_main, n_per, n_cuda, budget = 14, 4000, 1200, 540
    for i in range(n_main):
        out.append({"name": f"kern{i}", "threads": 2, "timeout": budget * 4 + 300,
                    "params": {"kind": "kernel", "seed": seed, "shard": i, "n": n_per,
                               "tier": tier, "budget_s": budget}})
    out.append({"name": "cudasim", "threads": 1, "timeout": budget * 4 + 300,
                "env": {"NUMBA_ENABLE_CUDASIM": "1"},
                "params": {"kind": "cuda", "seed": seed, "shard": 100, "n": n_cuda,
                           "tier": tier, "budget_s": budget * 3}})
    if tier == "thorough":
        # more simulated CUDA threads than a capped grid holds (64 blocks x 256): ~1 min per call
        out.append({"name": "cudasim-many", "threads": 1, "timeout": 3000,
                    "env": {"NUMBA_ENABLE_CUDASIM": "1"},
                    "params": {"kind": "cuda-many", "seed": seed}})
    out.append({"name": "api", "threads": 2, "timeout": budget * 4 + 300,
                "params": {"kind": "api", "seed": seed, "shard": 200,
                           "n": 24 if tier == "quick" else 300, "budget_s": budget}})
    return out


def post_check(counters):
    kernel = sum(counters.get(k, 0) for k in ("compared[numba]", "compared[numpy]", "compared[cuda]"))
    if kernel == 0:
        return ["no kernel-level comparison was made (private kernel names not found?)"] \
            if counters.get("bins_compared", 0) == 0 else []
    return []


def make_case(seedt, tier, cuda):
    rng = gen.rng_for(*seedt)
    if cuda:
        L = int(rng.choice([1, 2, 3, 4, 5, 8, 16, 31, 64, 100, 256]))
        K = int(rng.choice([1, 2, 3, 17, 64]))
        if rng.random() < 0.05:
            # more segments than one CUDA block holds (launch geometry: 2 blocks, tail partly idle)
            K, L = int(rng.choice([257, 300])), int(rng.choice([2, 4]))
    else:
        Ls = L_QUICK if tier == "quick" else L_THOROUGH
        L = int(rng.choice(Ls))
        K = int(rng.choice(K_SET))
        if rng.random() < 0.04:
            # more segments than the NumPy fallbacks' internal chunk sizes (8192/16384/32768)
            K = int(rng.choice([8193, 16385, 32769, 40000]))
            L = int(rng.choice([1, 2, 3, 5, 8, 16]))
        cap = 3_000_000 if tier == "quick" else 30_000_000
        if rng.random() < 0.008:
            L, K = int(rng.choice([(1 << 20) + 7, 3 << 19])), int(rng.choice([1, 2]))  # > 2^20 samples
            cap = 20_000_000
        elif rng.random() < 0.012:
            # a gather of more than 2^23 samples (memory-capped block processing territory)
            L = int(rng.choice([1024, 2048, 4097]))
            K = int(9_500_000 // L) + int(rng.integers(0, 50))
            cap = 20_000_000
        while K * L > cap and K in K_SET:
            K = K_SET[max(0, K_SET.index(K) - 1)]
    c = {
        "kind": "kernel", "seed": list(seedt), "tier": tier, "cuda": bool(cuda),
        "L": L, "K": K,
        "rec": str(rng.choice(gen.RECORD_CLASSES + ["zeros", "const"])),
        "pair": str(rng.choice(gen.PAIR_CLASSES)),
        "win": str(rng.choice(gen.WINDOW_CLASSES)),
        "start": str(rng.choice(gen.START_CLASSES)),
        "omega": str(rng.choice(gen.OMEGA_CLASSES)),
        "order": int(rng.choice([-1, 0, 1, 2])),
        "cross": bool(rng.random() < 0.6),
        "starts_dtype": str(rng.choice(["int64", "int64", "int32", "strided"])),
        "extra": int(rng.choice([0, 1, 2, 7])) if rng.random() < 0.3 else -1,
    }
    return c


def kernel_for(backend, order, cross):
    from speckit import core
    base = {-1: "_stats_win_only", 0: "_stats_detrend0", 1: "_stats_poly", 2: "_stats_poly"}[order]
    name = base + ("_csd" if cross else "_auto")
    if backend == "numba":
        return getattr(core, name)
    if backend == "numpy":
        return getattr(core, name + "_np")
    if backend == "cuda":
        from speckit import core_cuda
        return getattr(core_cuda, name + "_cuda")
    raise ValueError(backend)


def materialise(c):
    rng = gen.rng_for(*c["seed"], "data")
    L, K = c["L"], c["K"]
    extra = c["extra"] if c["extra"] >= 0 else int(rng.integers(0, 4 * L + 50))
    N = L + extra
    x = gen.record(rng, N, c["rec"])
    y = gen.second_channel(rng, x, c["pair"]) if c["cross"] else None
    w = gen.raw_window(rng, L, c["win"])
    st = gen.starts(rng, N, L, K, c["start"] if K > 1 else "single")
    om = gen.omega(rng, L, c["omega"])
    if c["starts_dtype"] == "int32":
        st = st.astype(np.int32)
    elif c["starts_dtype"] == "strided":
        tmp = np.zeros(2 * st.shape[0], dtype=np.int64)
        tmp[::2] = st
        st = tmp[::2]
    return x, y, w, st, om, N


def call_kernel(f, x, y, st, L, w, om, Q, cross, order):
    if order >= 1:
        return f(x, y, st, L, w, om, Q) if cross else f(x, st, L, w, om, Q)
    return f(x, y, st, L, w, om) if cross else f(x, st, L, w, om)


def run_case(c, rec, backends):
    from speckit import core
    x, y, w, st, om, N = materialise(c)
    L, K, order, cross = c["L"], c["K"], c["order"], c["cross"]
    nontriv = (K >= 2 and L >= 4 and (cross or order >= 0) and bool(np.any(x != 0)))
    rec.case(c, nontrivial=nontriv)
    rec.distinct("classes", f"{c['rec']}/{c['win']}/{c['start']}/{c['omega']}/{order}/{cross}")
    Q = core._build_Q(L, order) if order >= 1 else None
    ref = refmodel.ref_stats(x, y, st, L, w, om, order)
    for be in backends:
        try:
            f = kernel_for(be, order, cross)
        except (AttributeError, ImportError) as e:
            rec.count(f"kernel_name_missing[{be}]")
            rec.note(f"kernel lookup failed: {e!r}")
            continue
        # red zones: 1e200 (drags a huge value in) or, every third case, NaN (defeats a
        # clamp/nan_to_num that would hide a finite poison)
        pz = float("nan") if c["seed"][-1] % 3 == 1 else guard.POISON
        xv, xb = guard.redzone(x, poison=pz)
        yv, yb = guard.redzone(y, poison=pz) if cross else (None, None)
        wv, wb = guard.redzone(w, poison=pz)
        Qv, Qb = guard.redzone(Q, poison=pz) if Q is not None else (None, None)
        sv, sb = guard.redzone_starts(st, N)
        fps = [guard.fingerprint(a) for a in (xb, wb, sb)] + \
              [guard.fingerprint(yb) if cross else "", guard.fingerprint(Qb) if Q is not None else ""]
        try:
            got = call_kernel(f, xv, yv, sv, L, wv, om, Qv, cross, order)
            got = tuple(float(v) for v in got)
        except Exception as e:
            rec.violation(f"{be}:raises", f"{f.__name__ if hasattr(f, '__name__') else be} raised "
                                          f"{type(e).__name__}: {e}")
            continue
        fps2 = [guard.fingerprint(a) for a in (xb, wb, sb)] + \
               [guard.fingerprint(yb) if cross else "", guard.fingerprint(Qb) if Q is not None else ""]
        if fps != fps2:
            which = [n for n, a, b in zip(("x", "w", "starts", "y", "Q"), fps, fps2) if a != b]
            rec.violation(f"{be}:input-modified", f"kernel wrote to its input buffer(s) {which}")
        rec.count(f"compared[{be}]")
        if cross and be != "cuda" and c["seed"][-1] % 4 == 0 and c["rec"] not in ("huge",):
            # the very same array object passed as both channels (a caller computing an
            # auto-spectrum through the cross kernel): X = Y, nothing may be applied twice
            try:
                g2 = tuple(float(v) for v in call_kernel(f, xv, xv, sv, L, wv, om, Qv, cross, order))
                bad2, _w2 = refmodel.compare_stats(g2, refmodel.ref_stats(x, x, st, L, w, om, order))
                rec.count("same_object_as_both_channels")
                for nm, err, bound in bad2[:1]:
                    rec.violation(f"{be}:same-array-as-both-channels",
                                  f"x passed as both channels (same object), order {order}, L={L}, "
                                  f"K={len(st)}: {nm} err {err:.3e} > budget {bound:.3e}")
            except Exception as e:
                rec.violation(f"{be}:raises", f"same array as both channels: {type(e).__name__}: {e}")
        if c["rec"] not in ("huge",) and guard.poisoned(got):
            rec.violation(f"{be}:redzone-read",
                          f"result {got} carries the red-zone poison / is non-finite: a read "
                          f"outside [0,N), [0,L) or Q")
            continue
        bad, worst = refmodel.compare_stats(got, ref)
        rec.ratio(f"{be}_err_over_budget", worst)
        for name, err, bound in bad:
            rec.violation(f"{be}:{name}",
                          f"{be} {name}: |got-ref|={err:.3e} > budget {bound:.3e} "
                          f"(got={got}, ref MXX={ref['MXX']:.6e} MYY={ref['MYY']:.6e} "
                          f"mu={ref['mu']:.6e} M2={ref['M2']:.6e})")
        if not cross:
            if got[1] != got[0] or got[3] != 0.0 or abs(got[2] - got[0]) > 0:
                rec.violation(f"{be}:auto-convention",
                              f"auto mode must return MYY=MXX, mu_r=MXX, mu_i=0; got {got}")
        if be == "numba" and K * L <= 4096:
            pf = guard.py_kernel(f)
            if pf is not None:
                try:
                    got2 = tuple(float(v) for v in
                                 call_kernel(pf, xv, yv, sv, L, wv, om, Qv, cross, order))
                    rec.count("pyfunc_compared")
                    bad2, worst2 = refmodel.compare_stats(got2, ref)
                    rec.ratio("pyfunc_err_over_budget", worst2)
                    for name, err, bound in bad2:
                        rec.violation(f"pyfunc:{name}",
                                      f"interpreted kernel source {name}: err {err:.3e} > "
                                      f"budget {bound:.3e}")
                except IndexError as e:
                    rec.violation("pyfunc:index-error",
                                  f"interpreted kernel source over-ran an array: {e}")
                except Exception as e:
                    rec.note(f"py_func not runnable: {e!r}")

        # History: the caller refills the SAME buffers in place and calls again; the statistics
        # must be those of the current contents (no stale copy of an earlier record).
        if (be == "cuda" and c["seed"][-1] % 2 == 0) or (be != "cuda" and c["seed"][-1] % 3 == 0):
            r2 = gen.rng_for(*c["seed"], "refill")
            xv[:] = gen.record(r2, N, "white") * (float(np.std(x)) or 1.0)
            if cross:
                yv[:] = gen.record(r2, N, "ar1")
            ref2 = refmodel.ref_stats(xv, yv, st, L, w, om, order)
            try:
                got2 = tuple(float(v) for v in
                             call_kernel(f, xv, yv, sv, L, wv, om, Qv, cross, order))
                rec.count(f"refill_compared[{be}]")
                bad2, worst2 = refmodel.compare_stats(got2, ref2)
                rec.ratio(f"{be}_refill_err_over_budget", worst2)
                for name, err, bound in bad2:
                    rec.violation(f"{be}:stale-after-inplace-refill",
                                  f"{be}: second call on the same buffers after an in-place "
                                  f"refill: {name} err {err:.3e} > budget {bound:.3e} (the result "
                                  f"matches the previous contents: "
                                  f"{not refmodel.compare_stats(got2, ref)[0]})")
                    break
            except Exception as e:
                rec.violation(f"{be}:raises", f"second call raised {type(e).__name__}: {e}")

def run_api(params, rec):
    """Every dispatcher call made by SpectrumAnalyzer is compared with the reference."""
    from speckit.analysis import SpectrumAnalyzer
    t0 = time.time()
    for i in range(params["n"]):
        if time.time() - t0 > params["budget_s"]:
            break
        seedt = [params["seed"], params["shard"], i]
        rng = gen.rng_for(*seedt)
        N = int(rng.integers(60, 3000))
        cross = bool(rng.random() < 0.7)
        x = gen.record(rng, N, str(rng.choice(["white", "walk", "offset1e6", "ar1"])))
        data = np.vstack([x, gen.second_channel(rng, x, "mixed")]) if cross else x
        order = int(rng.choice([-1, 0, 1, 2]))
        backend = str(rng.choice(["numba", "numpy"]))
        sched = str(rng.choice(gen.SCHEDS))
        desc = {"kind": "api", "seed": seedt, "N": N, "cross": cross, "order": order,
                "backend": backend, "sched": sched}
        rec.case(desc, nontrivial=True)
        events = []
        probe = KernelProbe(lambda name, args, out: events.append((name, args, out))).install()
        wname = str(rng.choice(["hann", "kaiser"]))
        try:
            an = SpectrumAnalyzer(data, 1.0, order=order, backend=backend, scheduler=sched,
                                  Jdes=int(rng.choice([10, 40])), Kdes=int(rng.choice([5, 50])),
                                  olap=float(rng.choice([0.5, 0.75])), win=wname, psll=120)
            res_full = an.compute()
            res_one = an.compute_single_bin(0.1, L=min(N, 64))
        except ValueError as e:
            rec.blocked(f"analysis rejected: {e}")
            continue
        finally:
            probe.uninstall()
        # public route: the statistics the result exposes equal the reference on its own plan
        from .. import api
        d2 = {"fs": 1.0, "order": order, "backend": backend,
              "win": {"kind": "hann"} if wname == "hann" else {"kind": "kaiser", "psll": 120.0}}
        api.check_result(res_full, data, d2, rec, f"public[{backend}]", max_bins=20, rng=rng)
        api.check_result(res_one, data, d2, rec, f"public-single[{backend}]")
        for name, args, out in events:
            rec.count("api_kernel_events")
            iscsd = "_csd" in name
            if iscsd:
                xx, yy, st, L, w, om = args[:6]
                Q = args[6] if len(args) > 6 else None
            else:
                xx, st, L, w, om = args[:5]
                yy = None
                Q = args[5] if len(args) > 5 else None
            o = order
            ref = refmodel.ref_stats(xx, yy, st, L, w, om, o)
            bad, worst = refmodel.compare_stats(tuple(float(v) for v in out), ref)
            be = "numpy" if name.endswith("_np") else ("cuda" if name.endswith("_cuda") else "numba")
            rec.ratio(f"api_{be}_err_over_budget", worst)
            for nm, err, bound in bad:
                rec.violation(f"{be}:{nm}", f"dispatcher call {name}(L={L}, K={len(st)}, "
                                            f"omega={om:.6g}): {nm} err {err:.3e} > budget "
                                            f"{bound:.3e}")


def run_cuda_many(params, rec):
    from speckit import core
    if not core._CUDA_ENABLED:
        rec.note("CUDA simulator not enabled")
        return
    for i, (order, cross) in enumerate([(0, False), (0, True), (1, False), (-1, True)]):
        c = {"kind": "kernel", "seed": [params["seed"], 300, i], "tier": "thorough", "cuda": True,
             "L": 4, "K": 16801, "rec": "offset1e6", "pair": "mixed", "win": "hann",
             "start": "random", "omega": "uniform", "order": order, "cross": cross,
             "starts_dtype": "int64", "extra": -1}
        run_case(c, rec, ["cuda"])
        rec.count("cuda_many_segment_cases")


def run_shard(params, rec):
    kind = params["kind"]
    if kind == "api":
        return run_api(params, rec)
    if kind == "cuda-many":
        return run_cuda_many(params, rec)
    cuda = kind == "cuda"
    if cuda:
        from speckit import core
        if not core._CUDA_ENABLED:
            rec.note("CUDA simulator not enabled; CUDA third not reachable")
            return
    backends = ["cuda"] if cuda else ["numba", "numpy"]
    t0 = time.time()
    for i in range(params["n"]):
        if time.time() - t0 > params["budget_s"]:
            rec.note(f"time budget reached after {i} cases")
            break
        c = make_case([params["seed"], params["shard"], i], params["tier"], cuda)
        run_case(c, rec, backends)


def replay(case, rec):
    if case.get("kind") == "kernel":
        run_case(case, rec, ["cuda"] if case.get("cuda") else ["numba", "numpy"])
    elif case.get("kind") == "api":
        run_api({"seed": case["seed"][0], "shard": case["seed"][1], "n": case["seed"][2] + 1,
                 "budget_s": 1e9}, rec)
    else:
        raise ValueError(case.get("kind"))
