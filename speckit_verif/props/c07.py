"""C07 - transfer-function estimates recover gain and phase with the right sign."""
import math
import time

import numpy as np

from .. import api, gen, refmodel

ID = "C07"
LEVEL = "exploration"
RULE = ("(gain) y = g*x, g in +-10^[-3,3] (half of them powers of two): Hxy = g and coherence = 1 at "
        "every bin that carries an estimate; (delay) y[n] = x[n-d], d in 1..5 with Lmin >= 256*d: "
        "|Hxy*exp(+i*2*pi*f*d/fs) - 1| <= tau_j = max(0.02, 2*2*pi*ml*d/L_j) on bins with b >= 2*ml, "
        "K >= 4, records without spectral lines; a bin is decisive when 2|sin(2*pi*f*d/fs)| > 3*tau. "
        "All schedulers, orders, windows {hann, kaiser 60..200}, backends numba, numpy and cuda "
        "(simulator, small N).  Distinct by case descriptor; a delay case is non-trivial when it "
        "has >= 5 decisive bins.")
ASSUMPTIONS = [
    "edge-effect tolerance tau calibrated on the unchanged tree (worst deviation 0.13 tau)",
    "gain clause for non power-of-two g allows the Goertzel recurrence's own rounding on top of 1e-9",
    "cuda backend = Numba CUDA simulator",
]
DECIDING_COUNTERS = ["gain_bins[numba]", "gain_bins[numpy]", "gain_bins[cuda]",
                     "gain_cases_in_rescaled_units",
                     "refill_histories[cuda]", "refill_histories[numba]",
                     "decisive_bins[numba]", "decisive_bins[numpy]", "decisive_bins[cuda]"]
MIN_NONTRIVIAL = {"quick": 60, "thorough": 1000}
JOBS = {"quick": 9, "thorough": 16}


def shards(tier, seed):
    if tier == "quick":
        n_sh, n, budget, ncuda = 8, 9, 50, 4
    else:
        n_sh, n, budget, ncuda = 14, 220, 480, 40
    out = [{"name": f"tf{i}", "threads": 2, "timeout": budget * 4 + 300,
            "params": {"seed": seed, "shard": i, "n": n, "budget_s": budget, "tier": tier,
                       "backends": ["numba", "numpy"]}} for i in range(n_sh)]
    out.append({"name": "cudasim", "threads": 1, "timeout": budget * 4 + 300,
                "env": {"NUMBA_ENABLE_CUDASIM": "1"},
                "params": {"seed": seed, "shard": 100, "n": ncuda, "budget_s": budget * 3,
                           "tier": tier, "backends": ["cuda"], "cuda": True}})
    return out


def post_check(counters):
    out = []
    for be in ("numba", "numpy", "cuda"):
        need = 12 if be == "cuda" else 20  # the simulator is slow: fewer, single-bin, analyses
        if counters.get(f"decisive_bins[{be}]", 0) < need:
            out.append(f"fewer than {need} decisive delay bins on backend {be}")
    return out


def pick(rng, cuda):
    win = {"kind": "hann", "name": "hann"} if rng.random() < 0.4 else \
        {"kind": "kaiser", "psll": float(rng.uniform(60, 200))}
    return win, int(rng.choice([-1, 0, 1, 2])), str(rng.choice(gen.SCHEDS))


def gain_case(rec, seedt, backend, cuda):
    from speckit.analysis import SpectrumAnalyzer
    rng = gen.rng_for(*seedt)
    N = int(rng.integers(120, 300)) if cuda else int(rng.integers(500, 20000))
    win, order, sched = pick(rng, cuda)
    if not cuda and rng.random() < 0.25:
        win = {"kind": "callable", "name": str(rng.choice(list(api.CALLABLES)))}  # any window
    if not cuda and backend == "numba" and rng.random() < 0.3:
        backend = "auto"
    exact = bool(rng.random() < 0.5) or cuda
    g = float(rng.choice([-1, 1])) * (2.0 ** int(rng.integers(-10, 11)) if exact
                                      else 10 ** rng.uniform(-3, 3))
    rk = str(rng.choice(["white", "walk", "ar1", "ramp", "sine+noise", "offset1e6",
                         "line-over-1e-9-floor", "f^-4"] if exact else ["white", "ar1"]))
    if rk == "line-over-1e-9-floor":
        x = np.sin(2 * math.pi * float(rng.uniform(0.05, 0.3)) * np.arange(N)) \
            + 1e-9 * rng.standard_normal(N)
    elif rk == "f^-4":
        x = np.cumsum(np.cumsum(rng.standard_normal(N)))
        x -= np.mean(x)
    else:
        x = gen.record(rng, N, rk)
    if rng.random() < 0.15:
        # a dropout: a run of exact zeros long enough to hold whole segments of the short-L bins
        g0 = int(rng.integers(0, max(1, N // 2)))
        x = x.copy()
        x[g0:g0 + int(N * rng.uniform(0.1, 0.4))] = 0.0
        rec.count("gain_cases_with_a_zero_run")
    # the record's physical unit is arbitrary: the same samples expressed in a unit 2^k times
    # larger or smaller (an exact rescaling) must give the same transfer function and coherence
    amp_exp = int(rng.choice([0, 0, 0, -40, -100, -200, 40, 130]))
    if rk in ("offset1e6",) and amp_exp > 100:
        amp_exp = 40
    x = x * 2.0 ** amp_exp
    y = g * x
    desc = {"kind": "gain", "seed": list(seedt), "backend": backend, "N": N, "g": g,
            "order": order, "sched": sched, "win": win, "cuda": cuda, "amp_exp": amp_exp}
    rec.case(desc, nontrivial=True)
    kw = dict(order=order, scheduler=sched, backend=backend, Jdes=int(rng.choice([8, 30])),
              Kdes=int(rng.choice([2, 20])), olap=0.5 if cuda else "default")
    if cuda:
        kw.update(Lmin=8, Jdes=4, Kdes=2)
    kw.update(api.win_args(win))
    fs = float(rng.choice([1.0, 256.0]))
    try:
        r = SpectrumAnalyzer(np.vstack([x, y]), fs, **kw).compute()
    except ValueError as e:
        rec.blocked(f"analysis rejected: {e}")
        return
    if exact and (cuda or seedt[-1] % 2 == 0):
        # History: the caller refills the SAME two-channel buffer with another record / gain and
        # analyses again (same analyzer options): the estimate must follow the current contents.
        buf = np.ascontiguousarray(np.vstack([x, y]))
        first = api.attempt(rec, lambda: SpectrumAnalyzer(buf, fs, **kw).compute())
        g2 = -g * 4.0
        x2 = gen.record(rng, N, "white")
        buf[0, :] = x2
        buf[1, :] = g2 * x2
        again = api.attempt(rec, lambda: SpectrumAnalyzer(buf, fs, **kw).compute())
        if first is not None and again is not None:
            rec.count(f"refill_histories[{'numba' if backend == 'auto' else backend}]")
            v2 = (np.asarray(again.L) > order + 1) & (again.XX > 1e-24 * np.max(again.XX))
            if np.any(v2) and float(np.max(np.abs(again.Hxy[v2] - g2))) > 1e-9 * abs(g2):
                rec.violation(f"stale-after-inplace-refill:{backend}",
                              f"buffer refilled in place with y={g2!r}*x: Hxy still reports "
                              f"{complex(again.Hxy[v2][0])!r} (first contents had gain {g!r})")
    L = np.asarray(r.L, dtype=float)
    valid = (np.asarray(r.L) > order + 1) & (r.XX > 1e-24 * np.max(r.XX))
    if not np.any(valid):
        return
    rec.count(f"gain_bins[{'numba' if backend == 'auto' else backend}]", int(valid.sum()))
    if amp_exp:
        rec.count("gain_cases_in_rescaled_units")
    tol = 1e-9
    if not exact:
        sw = np.abs(np.sin(2 * np.pi * r.f[valid] / fs))
        grow = L[valid] * np.minimum(L[valid], 1 / np.maximum(sw, 1e-300)) * np.sqrt(L[valid])
        tol = 1e-9 + 0.2 * refmodel.U * float(np.max(grow))
    eh = float(np.max(np.abs(r.Hxy[valid] - g))) / abs(g)
    ec = float(np.max(np.abs(r.coh[valid] - 1)))
    rec.ratio("gain_err_over_tol", eh / tol)
    rec.ratio("gain_coh_err_over_tol", ec / tol)
    if not (eh <= tol):
        j = int(np.argmax(np.abs(r.Hxy - g) * valid))
        rec.violation(f"gain:{backend}", f"y={g!r}*x but Hxy[{j}]={complex(r.Hxy[j])!r} at "
                                         f"f={r.f[j]:.6g} (rel err {eh:.3e} > {tol:.2e}); order "
                                         f"{order}, {sched}, {win}")
    if not (ec <= tol):
        rec.violation(f"gain-coherence:{backend}", f"y=g*x but max|coh-1|={ec:.3e} > {tol:.2e}")


class _Bins:
    """Concatenation of single-bin results, exposing the per-bin fields used below."""

    def __init__(self, results):
        for k in ("f", "L", "K", "b", "Hxy"):
            setattr(self, k, np.concatenate([np.asarray(getattr(r, k)) for r in results]))


def delay_case(rec, seedt, backend, cuda, tier="quick"):
    from speckit.analysis import SpectrumAnalyzer
    rng = gen.rng_for(*seedt)
    win, order, sched = pick(rng, cuda)
    if cuda:
        d, N, Lmin = 1, int(rng.integers(2500, 3500)), 256
        win = {"kind": "hann", "name": "hann"}
    else:
        d = int(rng.integers(1, 6))
        Lmin = int(rng.choice([256, 256, 1024])) * d
        nlo = max(4000, 6 * Lmin)
        N = int(rng.integers(nlo, max(nlo + 2000, 40000 if tier == "thorough" else 20000)))
    kind = str(rng.choice(["white", "ar1", "walk+white"]))
    xl = gen.record(rng, N + d, "white" if kind == "white" else ("ar1" if kind == "ar1" else "walk"))
    if kind == "walk+white":
        xl = xl / np.sqrt(N) * 3 + gen.record(rng, N + d, "white")
    amp_exp = int(rng.choice([0, 0, 0, -40, -100, -200, 40, 130]))
    xl = xl * 2.0 ** amp_exp
    x, y = xl[d:], xl[:-d]
    fs = float(rng.choice([1.0, 10.0, 1e3]))
    desc = {"kind": "delay", "seed": list(seedt), "backend": backend, "N": N, "d": d,
            "Lmin": Lmin, "order": order, "sched": sched, "win": win, "cuda": cuda, "rec": kind,
            "tier": tier, "amp_exp": amp_exp}
    rec.case(desc, nontrivial=False)
    kw = dict(order=order, scheduler=sched, backend=backend, Lmin=Lmin,
              Jdes=int(rng.choice([30, 100])), Kdes=int(rng.choice([10, 50])),
              olap=0.5 if cuda else "default")
    if cuda:
        kw.update(Jdes=12, Kdes=8)
    kw.update(api.win_args(win))
    ml = refmodel.mainlobe_halfwidth(win["kind"], win.get("psll"))
    try:
        an = SpectrumAnalyzer(np.vstack([x, y]), fs, **kw)
        if cuda:
            # the simulator costs ~0.5 s per kernel call: a handful of single-bin analyses
            # (each is a one-bin plan with its own segmentation) instead of a 100-bin plan
            r = _Bins([an.compute_single_bin(float(rng.uniform(2 * ml / Lmin, 0.5)) * fs, L=Lmin)
                       for _ in range(8)])
        else:
            r = an.compute()
    except ValueError as e:
        rec.blocked(f"analysis rejected: {e}")
        return
    L = np.asarray(r.L, dtype=float)
    tau = np.maximum(0.02, 2 * 2 * math.pi * ml * d / L)
    adm = (np.asarray(r.b) >= 2 * ml) & (np.asarray(r.K) >= 4)
    ph = 2 * math.pi * np.asarray(r.f) * d / fs
    dec = adm & (2 * np.abs(np.sin(ph)) > 3 * tau)
    rec.count(f"admissible_bins[{backend}]", int(adm.sum()))
    rec.count(f"decisive_bins[{backend}]", int(dec.sum()))
    if dec.sum() >= 5:
        rec.mark_nontrivial(desc)
    if not np.any(adm):
        return
    dev = np.abs(r.Hxy * np.exp(1j * ph) - 1)
    ratio = np.where(adm, dev / tau, 0.0)
    rec.ratio(f"delay_dev_over_tau[{backend}]", float(ratio.max()))
    if np.any(ratio > 1):
        j = int(np.argmax(ratio))
        sign = "phase has the WRONG SIGN (conjugate estimate)" \
            if abs(r.Hxy[j] * np.exp(-1j * ph[j]) - 1) < tau[j] else "gain/phase wrong"
        rec.violation(f"delay:{backend}",
                      f"y=x delayed by {d}: Hxy[{j}]={complex(r.Hxy[j])!r}, expected "
                      f"exp(-i*{ph[j]:.4f}) at f={r.f[j]:.6g}, L={int(L[j])}, K={int(r.K[j])}: "
                      f"deviation {dev[j]:.3e} > tau {tau[j]:.3e} - {sign}; order {order}, "
                      f"{sched}, {win}")


def run_shard(params, rec):
    cuda = params.get("cuda", False)
    if cuda:
        from speckit import core
        if not core._CUDA_ENABLED:
            rec.note("CUDA simulator not enabled")
            return
    t0 = time.time()
    for i in range(params["n"]):
        if time.time() - t0 > params["budget_s"]:
            rec.note(f"time budget reached after {i}")
            break
        for be in params["backends"]:
            gain_case(rec, [params["seed"], params["shard"], "gain", i], be, cuda)
            delay_case(rec, [params["seed"], params["shard"], "delay", i], be, cuda,
                       params.get("tier", "quick"))


def replay(case, rec):
    if case["kind"] == "gain":
        gain_case(rec, case["seed"], case["backend"], case.get("cuda", False))
    else:
        delay_case(rec, case["seed"], case["backend"], case.get("cuda", False),
                   case.get("tier", "quick"))
