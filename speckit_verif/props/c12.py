"""C12 - the Kaiser window delivers the requested side-lobe suppression."""
import math
import time

import numpy as np

from .. import gen, refmodel

ID = "C12"
LEVEL = "exploration"
RULE = ("A pure sinusoid at fractional bin b0 of a length-L segment (1-4 segments, random phase) is "
        "analysed with compute_single_bin (Kaiser, requested PSLL = P in [40,200], L in {64,100,257,"
        "1000,4096,16384; thorough also 65536 and random 64..5000}) at b0 and at offsets b with "
        "|b-b0| > ml = sqrt(1+alpha(P)^2) (first side lobes ml+U(0,3) and ml+U(0,L/4), both signs; "
        "b0 and b at least ml from 0 and Nyquist; order -1, and orders 0-2 with b >= 2*ml): the "
        "power at b relative to b0 must be <= -(P-1) dB + 20*log10(1+min(1, ml/d_img)), d_img the "
        "distance of b from the sinusoid's image line; an excess over the literal -(P-1) dB that "
        "stays inside this two-line bound is the known mechanism kaiser-two-line-superposition. "
        "Cases whose float64 recurrence floor is above -(P+6) dB are not generated.  Every eighth "
        "case takes the compute() route instead: a unit sinusoid through a scheduler's plan (N 4096.."
        "20000, Lmin in {N, N/2, 4096, 512}, all four schedulers, both backends), each plan bin "
        "judged against the line's own response (S1/2)^2 with the reference model's window sum.  "
        "Distinct by "
        "case descriptor; every generated case is non-trivial.")
ASSUMPTIONS = [
    "float64 floor of the Goertzel recurrence from the rounding budget of DESIGN section 3",
    "the (L, P, omega) envelope actually swept is listed in the evidence counters",
]
DECIDING_COUNTERS = ["offsets_checked", "sinusoids", "corpus_replayed", "plan_route_bins_checked",
                     "plan_route_bins_with_odd_L_of_4096_or_more"]
MIN_NONTRIVIAL = {"quick": 300, "thorough": 8000}
JOBS = {"quick": 8, "thorough": 16}

CORPUS = [{"kind": "corpus", "L": 64, "P": 60.0, "b0": 26.15, "b": 29.14, "phase": 5.672320068981571, "K": 1,
           "order": -1}]


def shards(tier, seed):
    if tier == "quick":
        n_sh, n, budget = 8, 220, 40
    else:
        n_sh, n, budget = 16, 15000, 330
    out = [{"name": f"kw{i}", "threads": 2, "timeout": budget * 4 + 300,
            "params": {"kind": "sweep", "seed": seed, "shard": i, "n": n, "budget_s": budget,
                       "tier": tier}} for i in range(n_sh)]
    out.append({"name": "corpus", "threads": 1, "timeout": 600, "params": {"kind": "corpus"}})
    return out


def measure(x, fs, L, P, order, freq, backend="numba", second=None, olap=0.5):
    """Response of channel 1 at `freq`; with `second` the record is analysed as the first channel
    of a two-channel input (the side-lobe statement is about every analysis the sinusoid enters)."""
    from speckit.analysis import SpectrumAnalyzer
    data = x if second is None else second
    an = SpectrumAnalyzer(data, fs, win="kaiser", psll=P, order=order, olap=olap, backend=backend)
    r = an.compute_single_bin(freq, L=L)
    return float(r.XX[0]), r


def floor_db(x, L, P, b, peak_amp):
    """Rounding floor of the recurrence at analysis bin b, relative to the peak amplitude."""
    w = refmodel.window("kaiser", L, psll=P)
    om = 2 * math.pi * b / L
    s = abs(math.sin(om))
    g = 0.5 * L * min(float(L), 1 / s if s > 0 else float(L)) + 64
    A = float(np.sum(np.abs(w * x[:L])))
    return 20 * math.log10(max(g * refmodel.U * A, 1e-300) / max(peak_amp, 1e-300))


def one_sinusoid(rec, seedt, tier, fixed=None):
    rng = gen.rng_for(*seedt) if fixed is None else None
    if fixed is None:
        Ls = [64, 100, 257, 1000, 4096, 16384, 1025, 4097, int(2 * rng.integers(512, 4000) + 1)]
        if tier == "thorough":
            Ls += [65536, int(rng.integers(64, 5001)), int(rng.integers(64, 5001))]
        L = int(rng.choice(Ls))
        if rng.random() < 0.02:
            L = int(rng.choice([(1 << 20) + 7, 3 << 19, (1 << 21) + 1]))   # beyond 2^20 samples
        P = float(rng.uniform(40, 200))
        if rng.random() < 0.15:
            P = float(rng.choice([40.0, 45.0, 50.0, 60.0, 80.0, 100.0, 120.0, 150.0, 200.0]))   # round requests, range ends
        order = -1 if rng.random() < 0.7 else int(rng.choice([0, 1, 2]))
        K = int(rng.integers(1, 5)) if L < (1 << 20) else 1
        phase = float(rng.uniform(0, 2 * math.pi))
    else:
        L, P, order, K, phase = fixed["L"], fixed["P"], fixed["order"], fixed["K"], fixed["phase"]
    alpha = refmodel.kaiser_alpha(P)
    ml = math.sqrt(1 + alpha * alpha)
    lo_b = (2 * ml) if order >= 0 else ml
    hi_b = L / 2 - ml
    if hi_b - lo_b < 2 * ml + 0.5:
        return
    if fixed is None:
        b0 = float(rng.uniform(lo_b, hi_b))
        offs = []
        for _ in range(5):
            d = ml + (float(rng.uniform(0, 3)) if rng.random() < 0.6
                      else float(rng.uniform(0, L / 4)))
            offs.append(float(rng.choice([-1, 1])) * d)
    else:
        b0 = fixed["b0"]
        offs = [fixed["b"] - fixed["b0"]]
    fs = 1.0
    N = L if K == 1 else int(L * (1 + 0.5 * (K - 1)))
    if fixed is None and K == 1 and rng.random() < 0.3:
        N = L + max(1, int(L * float(rng.uniform(0.005, 0.1))))   # a record slightly longer than its one segment
    t = np.arange(N)
    x = np.sin(2 * math.pi * b0 / L * t + phase)
    desc = {"kind": "sinusoid" if fixed is None else "corpus", "seed": list(seedt) if seedt else None,
            "L": L, "P": round(P, 3), "b0": b0, "order": order, "K": K, "tier": tier}
    if fixed is not None:
        desc.update(b=fixed["b"], phase=phase)
    backend, second = "numba", None
    if fixed is None:
        backend = str(rng.choice(["numba", "numba", "numpy"]))
        if rng.random() < 0.3:
            # two-channel input held in ONE caller-owned buffer that every evaluation re-uses
            second = np.ascontiguousarray(np.vstack([x, rng.standard_normal(N)]))
    desc["backend"] = backend
    desc["two_channel"] = second is not None
    # the overlap option must not matter for the window: with a one-segment record any value
    # gives the same single segment
    olap = 0.5
    if fixed is None and K == 1 and rng.random() < 0.5:
        olap = [0.0, 0.0, 0.3, "default"][int(rng.integers(0, 4))]
    desc["olap"] = olap
    rec.case(desc, nontrivial=True)
    rec.count("sinusoids")
    rec.count(f"sinusoids[{backend}{'+2ch' if second is not None else ''}]")
    try:
        p0, _ = measure(x, fs, L, P, order, b0 * fs / L, backend, second, olap)
    except Exception as e:
        rec.violation("single-bin-raises", f"{type(e).__name__}: {e}")
        return
    if not (p0 > 0):
        rec.violation("no-response-at-sinusoid", f"XX at the sinusoid's own frequency is {p0!r}")
        return
    peak_amp = math.sqrt(p0)
    for off in offs:
        b = b0 + off
        if b < lo_b or b > hi_b or abs(off) <= ml:
            continue
        fl = floor_db(x, L, P, b, peak_amp)
        if fl > -(P + 6):
            rec.count("skipped_float64_floor")
            continue
        try:
            pb, _ = measure(x, fs, L, P, order, b * fs / L, backend, second, olap)
        except Exception as e:
            rec.violation("single-bin-raises", f"{type(e).__name__}: {e}")
            continue
        rec.count("offsets_checked")
        rec.distinct("LP_envelope", f"L={L}/P={int(P // 20) * 20}")
        rel_db = 10 * math.log10(max(pb, 1e-320) / p0)
        d_img = min(abs(b + b0), abs(b - (L - b0)))
        two_line = -(P - 1) + 20 * math.log10(1 + min(1.0, ml / max(d_img, 1e-9)))
        rec.ratio("margin_to_two_line_bound_dB(neg=ok)", rel_db - two_line)
        msg = (f"L={L}, P={P:.2f} dB (ml={ml:.2f}), sinusoid at bin {b0:.4f}, analysed at "
               f"{b:.4f} (offset {off:+.3f}, image distance {d_img:.2f}): response {rel_db:.2f} dB "
               f"relative to the line; literal bound {-(P - 1):.2f} dB, two-line bound "
               f"{two_line:.2f} dB; order {order}, K={K}")
        if rel_db > two_line:
            rec.violation("sidelobe-above-bound", msg)
        elif rel_db > -(P - 1):
            rec.violation("kaiser-two-line-superposition", msg)


_S1 = {}


def _s1(L, P):
    key = (L, round(P, 9))
    if key not in _S1:
        if len(_S1) > 4000:
            _S1.clear()
        _S1[key] = float(np.sum(refmodel.window("kaiser", L, psll=P)))
    return _S1[key]


def plan_route(rec, seedt, tier):
    """The same statement through compute(): a unit sinusoid analysed with a scheduler's plan.  Every
    plan bin j sees the line at fractional bin f0*L_j/fs of its own segment length; where the
    analysis bin is more than a main lobe away, its power relative to the line's own response
    (S1_j/2)^2 (window sum from the reference model) must respect the same bound."""
    from speckit.analysis import SpectrumAnalyzer
    rng = gen.rng_for(*seedt)
    P = float(rng.uniform(40, 200))
    order = -1 if rng.random() < 0.7 else int(rng.choice([0, 1, 2]))
    N = int(rng.choice([4097, 4099, 5001, 8193, 9001, int(rng.integers(4096, 20000)),
                        int(2 * rng.integers(2048, 10000) + 1)]))
    lm = str(rng.choice(["N", "half", "4k", "small"]))
    Lmin = {"N": N, "half": N // 2, "4k": min(N, 4096), "small": 512}[lm]
    sched = str(rng.choice(gen.SCHEDS))
    backend = str(rng.choice(["numba", "numba", "numpy"]))
    fs = float(rng.choice([1.0, 100.0]))
    f0 = fs * float(rng.uniform(0.05, 0.45))
    phase = float(rng.uniform(0, 2 * math.pi))
    x = np.sin(2 * math.pi * f0 / fs * np.arange(N) + phase)
    desc = {"kind": "plan-route", "seed": list(seedt), "N": N, "Lmin": Lmin, "P": round(P, 3),
            "order": order, "sched": sched, "backend": backend, "tier": tier}
    rec.case(desc, nontrivial=True)
    alpha = refmodel.kaiser_alpha(P)
    ml = math.sqrt(1 + alpha * alpha)
    lo_f = 2 * ml if order >= 0 else ml
    try:
        akw = dict(win="kaiser", psll=P, order=order,
                   olap=["default", "default", 0.0, 0.5][int(rng.integers(0, 4))], scheduler=sched, Lmin=Lmin,
                   Jdes=int(rng.choice([60, 150])), Kdes=int(rng.choice([1, 3])), backend=backend)
        if rng.random() < 0.4:
            # the same analysis restricted to a band that cuts off the lowest plan bins
            pf = np.asarray(SpectrumAnalyzer(x, fs, **akw).plan()["f"], dtype=float)
            if len(pf) >= 8:
                akw["band"] = (float(pf[int(rng.integers(1, len(pf) // 2))]), float(pf[-1]) * 1.01)
                desc["band"] = list(akw["band"])
                rec.count("plan_route_with_band")
        r = SpectrumAnalyzer(x, fs, **akw).compute()
    except ValueError as e:
        rec.blocked(f"analysis rejected: {e}")
        return
    rec.count("plan_route_sinusoids")
    Ls = np.asarray(r.L, dtype=np.int64)
    fj = np.asarray(r.f, dtype=float)
    XX = np.asarray(r.XX, dtype=float)
    for j in range(len(fj)):
        L = int(Ls[j])
        b0, b = f0 * L / fs, fj[j] * L / fs
        off = b - b0
        hi_b = L / 2 - ml
        if abs(off) <= ml or b < lo_f or b > hi_b or b0 < lo_f or b0 > hi_b:
            continue
        om = 2 * math.pi * b / L
        sn = abs(math.sin(om))
        g = 0.5 * L * min(float(L), 1 / sn if sn > 0 else float(L)) + 64
        if 20 * math.log10(2 * g * refmodel.U) > -(P + 6):
            rec.count("skipped_float64_floor")
            continue
        p0 = (_s1(L, P) / 2) ** 2
        rec.count("offsets_checked")
        rec.count("plan_route_bins_checked")
        if L >= 4096 and L % 2 == 1:
            rec.count("plan_route_bins_with_odd_L_of_4096_or_more")
        rec.distinct("LP_envelope", f"L={1 << int(math.log2(L))}+/P={int(P // 20) * 20}/plan")
        rel_db = 10 * math.log10(max(XX[j], 1e-320) / p0)
        d_img = min(abs(b + b0), abs(b - (L - b0)))
        two_line = -(P - 1) + 20 * math.log10(1 + min(1.0, ml / max(d_img, 1e-9)))
        rec.ratio("margin_to_two_line_bound_dB(neg=ok)", rel_db - two_line)
        msg = (f"compute() with {sched}, N={N}, plan bin {j} (L={L}, K={int(r.K[j])}), P={P:.2f} dB "
               f"(ml={ml:.2f}): unit sinusoid at bin {b0:.4f} of that segment length, analysed at "
               f"{b:.4f} (offset {off:+.3f}, image distance {d_img:.2f}): response {rel_db:.2f} dB "
               f"relative to the line; literal bound {-(P - 1):.2f} dB, two-line bound "
               f"{two_line:.2f} dB; order {order}, backend {backend}")
        if rel_db > two_line:
            rec.violation("sidelobe-above-bound", msg)
            return
        elif rel_db > -(P - 1):
            rec.violation("kaiser-two-line-superposition", msg)


def run_shard(params, rec):
    if params["kind"] == "corpus":
        for c in CORPUS:
            one_sinusoid(rec, None, "quick", fixed=c)
            rec.count("corpus_replayed")
        return
    t0 = time.time()
    for i in range(params["n"]):
        if time.time() - t0 > params["budget_s"]:
            rec.note(f"time budget reached after {i}")
            break
        one_sinusoid(rec, [params["seed"], params["shard"], i], params["tier"])
        if i % 8 == 0:
            plan_route(rec, [params["seed"], params["shard"], "plan", i], params["tier"])


def replay(case, rec):
    if case.get("kind") == "corpus":
        one_sinusoid(rec, None, "quick", fixed=case)
    elif case.get("kind") == "plan-route":
        plan_route(rec, case["seed"], case.get("tier", "quick"))
    else:
        one_sinusoid(rec, case["seed"], case.get("tier", "quick"))
