"""C03 - the frequency grid obeys the DFT and stepping constraints (DESIGN section 4, C03)."""
import numpy as np

from .. import gen, planwork

ID = "C03"
LEVEL = "exploration"
RULE = ("Same seeded configurations as C02 (admissible set with boundary-seeking classes) x 4 "
        "schedulers, direct and through SpectrumAnalyzer.plan() with the scheduler probe; every "
        "plan is checked by refmodel.plan_grid (r*L=fs, stepping, start, Nyquist, bin numbers, "
        "bmin shortfall in samples of L) and lpsd_plan(cfg) is compared field by field with "
        "ltf_plan(cfg, bmin=1, Lmin=1).  Distinct by (scheduler, configuration); non-trivial "
        "when the plan has >=3 bins and a bin with K>=2.")
ASSUMPTIONS = [
    "tolerances: 4u relative for r*L=fs, stepping and grid start; 8u for bin numbers; bmin "
    "shortfall <= 1 sample of L (rounding or truncation of L both pass), divided by the "
    "vectorised scheduler's lookup-grid ratio",
]
DECIDING_COUNTERS = ["plans_checked", "plans_checked[lpsd]", "plans_checked[ltf]",
                     "plans_checked[vectorized_ltf]", "plans_checked[new_ltf]",
                     "lpsd_vs_ltf_compared"]
MIN_NONTRIVIAL = {"quick": 500, "thorough": 5000}
JOBS = {"quick": 8, "thorough": 16}


def shards(tier, seed):
    if tier == "quick":
        n_sh, n, nmax, budget = 8, 450, 20000, 60
    else:
        n_sh, n, nmax, budget = 16, 5000, 300000, 600
    return [{"name": f"plans{i}", "threads": 1, "timeout": budget * 4 + 300,
             "params": {"seed": seed, "shard": i, "n": n, "nmax": nmax, "budget_s": budget}}
            for i in range(n_sh)] + [{"name": "threaded", "threads": 1, "timeout": 900,
                                      "params": {"kind": "threaded", "seed": seed, "nthreads": 4,
                                                 "per_thread": 40 if tier == "quick" else 400}}] \
        + ([{"name": "repo-tests", "threads": 4, "timeout": 2400,
                                       "params": {"kind": "repo-tests"}}] if tier == "thorough" else [])


def lpsd_eq(rec, cfg):
    import speckit.schedulers as S
    desc = {"kind": "lpsd-eq", "cfg": cfg}
    rec.case(desc, nontrivial=False)
    kw = gen.sched_kwargs(cfg)
    try:
        a = S.lpsd_plan(**kw)
        kw2 = dict(kw, bmin=1.0, Lmin=1)
        b = S.ltf_plan(**kw2)
    except BaseException as e:
        rec.blocked(f"scheduler raised {type(e).__name__} (C02)")
        return
    rec.count("lpsd_vs_ltf_compared")
    if planwork.nontrivial_plan(a):
        rec.mark_nontrivial(desc)
    for k in ("f", "r", "b", "m", "L", "K", "navg", "O"):
        if k not in a or k not in b:
            continue
        x, y = np.asarray(a[k]), np.asarray(b[k])
        if x.shape != y.shape or not np.array_equal(x, y):
            rec.violation("lpsd-is-not-ltf-bmin1-Lmin1",
                          f"lpsd_plan differs from ltf_plan(bmin=1, Lmin=1) in '{k}' "
                          f"(user bmin={cfg['bmin']}, Lmin={cfg['Lmin']}): shapes {x.shape} vs "
                          f"{y.shape}")
            return
    if len(a["D"]) != len(b["D"]) or any(
            not np.array_equal(np.asarray(p), np.asarray(q)) for p, q in zip(a["D"], b["D"])):
        rec.violation("lpsd-is-not-ltf-bmin1-Lmin1", "lpsd_plan differs from ltf_plan(bmin=1, "
                      "Lmin=1) in the segment starts D")


def extra(rec, cfg, rng, i):
    if i % 2 == 0:
        lpsd_eq(rec, cfg)


def run_shard(params, rec):
    if params.get("kind") == "repo-tests":
        return planwork.run_repo_tests(ID, rec)
    if params.get("kind") == "threaded":
        return planwork.run_threaded_shard(ID, params, rec)
    planwork.run_mixed_shard(ID, params, rec, extra)


def replay(case, rec):
    planwork.replay_case(ID, case, rec, lambda c, r: lpsd_eq(r, c["cfg"]))
