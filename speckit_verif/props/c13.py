"""C13 - inputs are handled robustly: sanitised, never modified, layout-independent."""
import time

import numpy as np

from .. import api, gen, guard, resultcheck

ID = "C13"
LEVEL = "exploration"
RULE = ("For records of length N in {2,3,8,64,2000,random} (one and two channels): (a) every caller-"
        "owned array is byte-fingerprinted (NaN payloads included) before and after each API call "
        "(SpectrumAnalyzer, compute, compute_single_bin, compute_spectrum, SISO/MISO helpers) and, "
        "in a second pass, handed over read-only so that a store raises at the offending line; (b) "
        "non-finite samples at {first, last, random 1 %, a whole segment, a whole channel} of kinds "
        "{NaN, +Inf, -Inf, mixed} must give the result of the zero-filled record (1e-12); (c) the "
        "same samples as 2xN, Nx2, list / tuple of channels, float32, int, Fortran order, negative "
        "strides, non-contiguous views and 2x2 must give identical XX, YY, XY, M2 with channels "
        "not swapped; (d) for finite input incl. all-zero, constant and one-zero-channel records "
        "every density / coherence / transfer-function attribute is finite, error bars wherever "
        "coherence > 0.  Distinct by case descriptor.")
ASSUMPTIONS = [
    "exclusions as stated in DESIGN C13: error-bar attributes at bins with coh = 0; cf_db where cf = 0",
    "for 2x2 input the documented convention (rows are channels) is the oracle",
]
DECIDING_COUNTERS = ["write_guard_calls", "readonly_calls", "nonfinite_pairs", "layout_variants",
                     "finiteness_results", "helpers_rejecting_nonfinite"]
MIN_NONTRIVIAL = {"quick": 200, "thorough": 4000}
JOBS = {"quick": 8, "thorough": 16}

DENSITY_LIKE = ["Gxx", "Gyy", "Gxy", "psd", "G", "asd", "ps", "csd", "cs", "Gyx", "coh", "ccoh",
                "Hxy", "Hyx", "tf", "cf", "cf_rad", "cf_deg", "cf_rad_unwrapped",
                "cf_deg_unwrapped", "GyyCx", "GyyRx", "GyySx", "ENBW", "XX_mean", "YY_mean",
                "XY_M2", "XY_emp_var", "XY_emp_dev"]
ERROR_BARS = resultcheck.ERRBARS + ["Gxx_emp_dev", "Gxy_emp_dev"]


def shards(tier, seed):
    if tier == "quick":
        n_sh, n, budget = 8, 60, 45
    else:
        n_sh, n, budget = 16, 5000, 420
    return [{"name": f"in{i}", "threads": 2, "timeout": budget * 4 + 300,
             "params": {"seed": seed, "shard": i, "n": n, "budget_s": budget}}
            for i in range(n_sh)] + [{"name": "corpus", "threads": 1, "timeout": 600,
                                      "params": {"kind": "corpus"}}]


def stats_of(res):
    return {k: np.asarray(getattr(res, k)).copy() for k in ("XX", "YY", "XY", "M2")}


def stats_equal(a, b, tol=1e-12):
    worst = 0.0
    for k in a:
        if a[k].shape != b[k].shape:
            return False, k, float("inf")
        mx = float(np.max(np.abs(a[k]))) if a[k].size else 0.0
        e = resultcheck.relerr(b[k], a[k], floor=1e-13 * max(mx, 1e-300))
        m = float(np.max(e)) if e.size else 0.0
        worst = max(worst, m)
        if not (m <= tol):
            return False, k, m
    return True, None, worst


def run_api(data, fs, kw, single):
    from speckit.analysis import SpectrumAnalyzer
    an = SpectrumAnalyzer(data, fs, **kw)
    if single is not None:
        return an.compute_single_bin(single[0], L=single[1])
    return an.compute()


def common_kw(rng, N):
    kw = dict(order=int(rng.choice([-1, 0, 1, 2])), backend=str(rng.choice(["numba", "numpy"])),
              scheduler=str(rng.choice(gen.SCHEDS)), Jdes=int(rng.choice([5, 20])),
              Kdes=int(rng.choice([2, 10])), olap=float(rng.choice([0.0, 0.5, 0.75])))
    kw.update(api.win_args(api.random_window(rng)))
    single = None
    if N < 16 or rng.random() < 0.4:
        L = int(rng.integers(1, N + 1))
        single = (float(rng.uniform(0, 0.5)), L)
    return kw, single


def nonfinite_case(rec, seedt):
    rng = gen.rng_for(*seedt)
    N = int(rng.choice([2, 3, 8, 64, 2000, int(rng.integers(9, 600))]))
    cross = bool(rng.random() < 0.6)
    x = gen.record(rng, N, str(rng.choice(["white", "walk", "offset1e6", "sine+noise"])))
    data = np.vstack([x, gen.second_channel(rng, x, "mixed")]) if cross else x.copy()
    where = str(rng.choice(["first", "last", "random", "segment", "channel"]))
    kind = str(rng.choice(["nan", "+inf", "-inf", "mixed"]))
    bad = data.copy()
    flat = bad.reshape(-1)
    if where == "first":
        idx = np.array([0])
    elif where == "last":
        idx = np.array([flat.size - 1])
    elif where == "random":
        idx = rng.choice(flat.size, size=max(1, flat.size // 100), replace=False)
    elif where == "segment":
        a = int(rng.integers(0, max(1, N // 2)))
        idx = np.arange(a, min(N, a + max(1, N // 4)))
        if cross and rng.random() < 0.5:
            idx = idx + N
    else:
        idx = np.arange(N) + (N if (cross and rng.random() < 0.5) else 0)
    vals = {"nan": [np.nan], "+inf": [np.inf], "-inf": [-np.inf],
            "mixed": [np.nan, np.inf, -np.inf]}[kind]
    flat[idx] = rng.choice(vals, size=idx.size)
    zero = bad.copy()
    zero[~np.isfinite(zero)] = 0.0
    kw, single = common_kw(rng, N)
    layout = str(rng.choice(["c64", "c64", "Nx2", "list", "f32", "object"])) if cross else \
        str(rng.choice(["c64", "c64", "f32", "list", "object"]))
    if N == 2 and layout == "Nx2":
        layout = "c64"  # 2x2 is documented as rows = channels; there is no Nx2 reading of it
    desc = {"kind": "nonfinite", "seed": list(seedt), "N": N, "cross": cross, "where": where,
            "nf_kind": kind, "layout": layout, "order": kw["order"], "backend": kw["backend"],
            "single": single is not None}
    rec.case(desc, nontrivial=True)
    if layout == "Nx2":
        arg = np.ascontiguousarray(bad.T)
    elif layout == "list":
        arg = [r.tolist() for r in bad] if cross else bad.tolist()
    elif layout == "f32":
        arg = bad.astype(np.float32)
        zero = zero.astype(np.float32).astype(np.float64)
    elif layout == "object":
        # object-dtype container (e.g. parsed from a table with missing values): NaN -> None
        arg = bad.astype(object)
        arg[np.isnan(bad)] = None
    else:
        arg = bad
    fp = guard.fingerprint(arg) if isinstance(arg, np.ndarray) else None
    keep = [list(r) for r in arg] if (layout == "list" and cross) else (list(arg) if layout == "list" else None)
    fs = float(rng.choice([1.0, 100.0]))
    r_bad = api.attempt(rec, lambda: run_api(arg, fs, kw, single), "analysis of non-finite record")
    rec.count("write_guard_calls")
    if fp is not None and guard.fingerprint(arg) != fp:
        rec.violation("caller-array-modified",
                      f"the caller's {layout} array (shape {arg.shape}, {arg.dtype}, C-contiguous="
                      f"{arg.flags.c_contiguous}) was modified by the analysis: its non-finite "
                      f"samples were overwritten ({where}, {kind}, cross={cross})")
    if keep is not None:
        now = [list(r) for r in arg] if cross else list(arg)
        if repr(now) != repr(keep):
            rec.violation("caller-list-modified", "the caller's list of samples was modified")
    if r_bad is None:
        return
    r_zero = api.attempt(rec, lambda: run_api(zero, fs, kw, single), "analysis of zero-filled record")
    if r_zero is None:
        return
    rec.count("nonfinite_pairs")
    ok, k, m = stats_equal(stats_of(r_zero), stats_of(r_bad))
    rec.ratio("nonfinite_vs_zerofill_over_1e-12", m / 1e-12)
    if not ok:
        rec.violation("nonfinite-not-zero-filled",
                      f"{kind} at {where} ({layout}, cross={cross}, order {kw['order']}, "
                      f"{kw['backend']}): statistic {k} differs from the zero-filled record's by "
                      f"{m:.3e}")


def layout_case(rec, seedt):
    rng = gen.rng_for(*seedt)
    N = int(rng.choice([2, 3, 8, 64, 2000, int(rng.integers(9, 600))]))
    x = np.round(gen.record(rng, N, str(rng.choice(["white", "walk", "sine+noise"]))) * 64) / 64
    y = np.round(gen.second_channel(rng, x, "mixed") * 64) / 64   # float32/int-exact after scaling
    if rng.random() < 0.3:
        x, y = np.round(x * 8), np.round(y * 8)                   # integer-valued
    base = np.vstack([x, y]).astype(np.float64)
    kw, single = common_kw(rng, N)
    fs = 1.0
    desc = {"kind": "layout", "seed": list(seedt), "N": N, "order": kw["order"],
            "backend": kw["backend"], "single": single is not None}
    rec.case(desc, nontrivial=True)
    fp0 = guard.fingerprint(base)
    r0 = api.attempt(rec, lambda: run_api(base, fs, kw, single), "reference layout")
    rec.count("write_guard_calls")
    if guard.fingerprint(base) != fp0:
        rec.violation("caller-array-modified",
                      f"finite 2xN float64 C-contiguous input (N={N}) was modified by the analysis "
                      f"(order {kw['order']}, {kw['backend']}, single-bin={single is not None})")
        base = np.vstack([x, y]).astype(np.float64)
    if r0 is None:
        return
    s0 = stats_of(r0)
    big = np.zeros((2, 3 * N + 5))
    big[:, 2:2 + 2 * N:2] = base
    rev = base[:, ::-1].copy()
    variants = {
        "fortran-2xN": np.asfortranarray(base),
        "list-of-lists": [x.tolist(), y.tolist()],
        "tuple-of-arrays": (x.copy(), y.copy()),
        "float32": base.astype(np.float32),
        "noncontiguous-view": big[:, 2:2 + 2 * N:2],
        "negative-stride-view": rev[:, ::-1],
    }
    try:
        import pandas as pd
        if N != 2:
            variants["pandas-DataFrame-Nx2"] = pd.DataFrame({"a": x, "b": y})
        variants["list-of-Series"] = [pd.Series(x), pd.Series(y)]
    except Exception:
        pass
    if N != 2:
        variants["Nx2-C"] = np.ascontiguousarray(base.T)
        variants["Nx2-F"] = np.asfortranarray(base.T)
        variants["Nx2-view"] = base.T
    if np.all(base == np.round(base)):
        variants["int64"] = base.astype(np.int64)
        variants["int32-Nx2" if N != 2 else "int32"] = \
            base.T.astype(np.int32) if N != 2 else base.astype(np.int32)
    for name, arg in variants.items():
        fp = guard.fingerprint(arg) if isinstance(arg, np.ndarray) else None
        r = api.attempt(rec, lambda: run_api(arg, fs, kw, single), f"layout {name}")
        if fp is not None and guard.fingerprint(arg) != fp:
            rec.violation("caller-array-modified", f"layout {name}: caller's array modified")
        if r is None:
            continue
        rec.count("layout_variants")
        ok, k, m = stats_equal(s0, stats_of(r))
        if not ok:
            swapped, _, _ = stats_equal({"XX": s0["YY"], "YY": s0["XX"], "XY": np.conj(s0["XY"]),
                                         "M2": s0["M2"]}, stats_of(r))
            rec.violation("layout-dependence",
                          f"layout {name} (N={N}): statistic {k} differs from the 2xN float64 "
                          f"result by {m:.3e}" + (" - the channels are SWAPPED" if swapped else ""))
    # one-channel variants
    r1 = api.attempt(rec, lambda: run_api(x.copy(), fs, kw, single), "1-D reference")
    if r1 is not None:
        s1 = stats_of(r1)
        for name, arg in {"list": x.tolist(), "float32": x.astype(np.float32),
                          "strided": np.repeat(x, 2)[::2], "reversed-view": x[::-1].copy()[::-1]}.items():
            r = api.attempt(rec, lambda: run_api(arg, fs, kw, single), f"1-D layout {name}")
            if r is None:
                continue
            rec.count("layout_variants")
            ok, k, m = stats_equal(s1, stats_of(r))
            if not ok:
                rec.violation("layout-dependence", f"1-D layout {name} (N={N}): {k} differs by {m:.3e}")


def readonly_case(rec, seedt):
    rng = gen.rng_for(*seedt)
    N = int(rng.choice([8, 64, 700]))
    cross = bool(rng.random() < 0.6)
    x = gen.record(rng, N, "white")
    data = np.vstack([x, gen.second_channel(rng, x, "mixed")]) if cross else x
    nonfinite = bool(rng.random() < 0.6)
    if nonfinite:
        data = data.copy()
        data.reshape(-1)[rng.integers(0, data.size, size=3)] = np.nan
    kw, single = common_kw(rng, N)
    if not nonfinite:
        kw["backend"] = "numpy"   # avoids JIT-specialising every kernel for read-only arrays
    layout = str(rng.choice(["2xN", "Nx2-F"])) if cross else "1d"
    arg = np.asfortranarray(data.T) if layout == "Nx2-F" else np.ascontiguousarray(data)
    arg.setflags(write=False)
    desc = {"kind": "readonly", "seed": list(seedt), "N": N, "cross": cross, "nonfinite": nonfinite,
            "layout": layout, "backend": kw["backend"]}
    rec.case(desc, nontrivial=True)
    rec.count("readonly_calls")
    try:
        run_api(arg, 1.0, kw, single)
    except ValueError as e:
        if "read-only" in str(e) or "readonly" in str(e):
            import traceback
            tb = traceback.format_exc().strip().splitlines()
            rec.violation("write-to-caller-array",
                          f"a store into the caller's read-only array was attempted "
                          f"({layout}, nonfinite={nonfinite}): {tb[-3:]}")
        else:
            rec.blocked(f"analysis rejected: {e}")
    except Exception as e:
        rec.violation(f"raises:{type(e).__name__}", f"read-only input: {type(e).__name__}: {e}")


def finiteness_case(rec, seedt, fixed=None):
    rng = gen.rng_for(*seedt)
    N = int(rng.choice([8, 64, 900, int(rng.integers(9, 400))]))
    cross = bool(rng.random() < 0.7)
    if fixed is not None:
        N, cross = fixed["N"], fixed["cross"]
    kind = str(rng.choice(["zeros", "const", "one-zero-channel", "identical", "white", "tiny",
                           "huge", "impulse", "overflow"])) if fixed is None else fixed["rec"]
    amp = 1.0
    if kind == "overflow":
        # finite samples whose POWER is not representable in float64 (|x|^2 L > 1.8e308)
        amp = float(rng.choice([1e153, 1e160, 1e200, 1e250, 1e300])) if fixed is None else fixed["amp"]
    mk = {"zeros": lambda: np.zeros(N), "const": lambda: np.full(N, 3.25),
          "white": lambda: rng.standard_normal(N), "tiny": lambda: 1e-60 * rng.standard_normal(N),
          "huge": lambda: 1e60 * rng.standard_normal(N),
          "overflow": lambda: amp * rng.uniform(0.5, 1.0, size=N) * rng.choice([-1, 1], size=N)}
    if kind in mk:
        x = mk[kind]()
        y = mk[kind]()
    elif kind == "one-zero-channel":
        x, y = rng.standard_normal(N), np.zeros(N)
        if rng.random() < 0.5:
            x, y = y, x
    elif kind == "identical":
        x = rng.standard_normal(N)
        y = x.copy()
    else:
        x = np.zeros(N)
        x[N // 2] = 1.0
        y = np.roll(x, 1)
    data = np.vstack([x, y]) if cross else x
    kw, single = common_kw(rng, N)
    if fixed is not None:
        kw.update(order=fixed["order"], backend=fixed["backend"], scheduler="ltf", Jdes=10,
                  Kdes=5, olap=0.5, win="hann")
        kw.pop("psll", None)
        single = (0.1, min(N, 64)) if fixed["single"] else None
    desc = {"kind": "finite", "seed": list(seedt), "N": N, "cross": cross, "rec": kind,
            "order": kw["order"], "backend": kw["backend"], "single": single is not None,
            "amp": amp, "fixed": fixed}
    rec.case(desc, nontrivial=True)
    res = api.attempt(rec, lambda: run_api(data, 1.0, kw, single), "analysis of a finite record")
    if res is None:
        return
    rec.count("finiteness_results")
    coh = np.asarray(res.coh) if cross else None
    raw_finite = all(np.all(np.isfinite(np.asarray(getattr(res, k)))) for k in ("XX", "YY", "XY", "M2"))
    for nm in DENSITY_LIKE:
        v = getattr(res, nm)
        if v is None:
            continue
        v = np.asarray(v)
        if not np.all(np.isfinite(v)):
            j = int(np.argmax(~np.isfinite(v)))
            key = "non-finite-estimate"
            if kind == "overflow":
                # mechanisms recorded as known findings (float64 cannot hold the power):
                if single is not None and not raw_finite:
                    key = "single-bin-overflow-unsanitised"
                elif raw_finite:
                    key = "overflow-edge-density-scaling"
            rec.violation(key,
                          f"{nm}[{j}]={v[j]!r} for a finite {kind} record (amp {amp:g}, N={N}, "
                          f"cross={cross}, order {kw['order']}, {kw['backend']}, "
                          f"{'single-bin' if single is not None else 'compute()'}, raw statistics "
                          f"finite={raw_finite}, L={int(res.L[j])}, K={int(res.K[j])})")
            if key != "non-finite-estimate":
                break
    if kind == "overflow":
        return  # error bars of unrepresentable estimates carry no statement
    v = getattr(res, "cf_db")
    if v is not None:
        v, cf = np.asarray(v), np.asarray(res.cf)
        if np.any(~np.isfinite(v[cf > 0])):
            rec.violation("non-finite-estimate", f"cf_db non-finite where cf > 0 ({kind})")
    coh = np.array(coh, copy=True) if cross else None   # value as first read
    for nm in ERROR_BARS:
        v = getattr(res, nm)
        if v is None:
            continue
        v = np.asarray(v)
        sel = (coh > 0) if cross else np.ones(len(v), dtype=bool)
        if np.any(~np.isfinite(v[sel])):
            j = int(np.nonzero(sel)[0][int(np.argmax(~np.isfinite(v[sel])))])
            rec.violation("non-finite-error-bar",
                          f"{nm}[{j}]={v[j]!r} although coherence={coh[j] if cross else 1.0!r} > 0 "
                          f"({kind}, N={N}, order {kw['order']})")
    # the estimates must still be finite after the error bars have been read
    for nm in DENSITY_LIKE:
        v = getattr(res, nm)
        if v is not None and not np.all(np.isfinite(np.asarray(v))):
            rec.violation("non-finite-estimate-after-error-bars",
                          f"{nm} became non-finite after the error-bar attributes were read "
                          f"({kind} record, N={N}, cross={cross}, order {kw['order']})")
            break


def writeguard_case(rec, seedt):
    """Finite caller-owned float64 C-contiguous arrays (the layout the analyzer keeps without
    copying) through construct / plan / compute / several single-bin requests, every order and
    backend: the bytes must be unchanged after each call, and a second compute() must still
    see the same record."""
    from speckit.analysis import SpectrumAnalyzer
    rng = gen.rng_for(*seedt)
    N = int(rng.choice([16, 200, 1500]))
    cross = bool(rng.random() < 0.6)
    x = gen.record(rng, N, str(rng.choice(["white", "offset1e6", "walk"])))
    data = np.ascontiguousarray(np.vstack([x, gen.second_channel(rng, x, "mixed")]) if cross else x)
    kw, _ = common_kw(rng, N)
    desc = {"kind": "writeguard", "seed": list(seedt), "N": N, "cross": cross,
            "order": kw["order"], "backend": kw["backend"]}
    rec.case(desc, nontrivial=True)
    fp = guard.fingerprint(data)
    steps = []
    try:
        an = SpectrumAnalyzer(data, 1.0, **kw)
        steps.append("construct")
        ops = ["compute"] + [str(rng.choice(["single-big", "single-small", "compute", "plan"]))
                             for _ in range(4)]
        first = None
        for op in ops:
            steps.append(op)
            if op == "compute":
                r = an.compute()
                if first is None:
                    first = stats_of(r)
                else:
                    ok, k, m = stats_equal(first, stats_of(r))
                    if not ok:
                        rec.violation("record-changed-between-calls",
                                      f"compute() after {steps[-5:]} differs from the first "
                                      f"compute() on the same analyzer ({k}: {m:.3e})")
                        break
            elif op == "plan":
                an.plan()
            elif op == "single-big":
                an.compute_single_bin(float(rng.uniform(0.01, 0.4)), L=int(N * rng.uniform(0.86, 1.0)))
            else:
                an.compute_single_bin(float(rng.uniform(0.01, 0.4)), L=int(rng.integers(1, max(2, N // 4))))
            rec.count("write_guard_calls")
            if guard.fingerprint(data) != fp:
                rec.violation("caller-array-modified",
                              f"finite float64 C-contiguous {'2xN' if cross else '1-D'} input was "
                              f"modified by {op} (after {steps[-4:-1]}; order {kw['order']}, "
                              f"{kw['backend']})")
                break
    except ValueError as e:
        rec.blocked(f"analysis rejected: {str(e)[:60]}")
    except Exception as e:
        rec.violation(f"raises:{type(e).__name__}", f"{steps[-3:]}: {type(e).__name__}: {e}")


def _rescan_marker():
    pass


def helper_case(rec, seedt):
    from speckit import systems
    rng = gen.rng_for(*seedt)
    N = 400
    a, b, c = rng.standard_normal(N), rng.standard_normal(N), rng.standard_normal(N)
    which = int(rng.integers(0, 3))
    bad = [a, b, c][which]
    bad[int(rng.integers(0, N))] = rng.choice([np.nan, np.inf, -np.inf])
    fps = [guard.fingerprint(v) for v in (a, b, c)]
    desc = {"kind": "helpers", "seed": list(seedt), "which": which}
    rec.case(desc, nontrivial=True)
    calls = [("SISO", lambda: systems.SISO_optimal_spectral_analysis(a, c, 1.0)),
             ("MISO_numeric", lambda: systems.MISO_numeric_optimal_spectral_analysis([a, b], c, 1.0)),
             ("MISO_analytic", lambda: systems.MISO_analytic_optimal_spectral_analysis([a, b], c, 1.0))]
    for name, fn in calls:
        uses_bad = which != 1 or name != "SISO"
        try:
            fn()
            if uses_bad:
                rec.violation("helper-accepts-nonfinite", f"{name} accepted a non-finite input")
        except ValueError:
            rec.count("helpers_rejecting_nonfinite")
        except Exception as e:
            rec.violation(f"raises:{type(e).__name__}", f"{name}: {type(e).__name__}: {e}")
        if [guard.fingerprint(v) for v in (a, b, c)] != fps:
            rec.violation("caller-array-modified", f"{name} modified its input arrays")
            break


CORPUS = [
    {"rec": "overflow", "amp": 1e200, "N": 300, "cross": True, "order": 0, "backend": "numba",
     "single": True},
    {"rec": "overflow", "amp": 1e153, "N": 300, "cross": True, "order": 0, "backend": "numpy",
     "single": False},
]


def run_shard(params, rec):
    if params.get("kind") == "corpus":
        for i, c in enumerate(CORPUS):
            finiteness_case(rec, [0, "corpus", i], fixed=c)
            rec.count("corpus_replayed")
        return
    t0 = time.time()
    seed, sh = params["seed"], params["shard"]
    for i in range(params["n"]):
        if time.time() - t0 > params["budget_s"]:
            rec.note(f"time budget reached after {i}")
            break
        nonfinite_case(rec, [seed, sh, "nf", i])
        nonfinite_case(rec, [seed, sh, "nf2", i])
        finiteness_case(rec, [seed, sh, "fin", i])
        readonly_case(rec, [seed, sh, "ro", i])
        writeguard_case(rec, [seed, sh, "wg", i])
        if i % 3 == 0:
            layout_case(rec, [seed, sh, "lay", i])
        if i % 10 == 0:
            helper_case(rec, [seed, sh, "help", i])


def replay(case, rec):
    if case.get("kind") == "finite" and case.get("fixed"):
        return finiteness_case(rec, case["seed"], fixed=case["fixed"])
    {"nonfinite": nonfinite_case, "layout": layout_case, "readonly": readonly_case,
     "finite": finiteness_case, "helpers": helper_case, "writeguard": writeguard_case}[case["kind"]](rec, case["seed"])
