"""C02 - every plan segments the record safely and completely (DESIGN section 4, C02)."""
from .. import planwork

ID = "C02"
LEVEL = "exploration"
RULE = ("Configurations drawn (seeded) from the admissible set N>=8, fs>0, 0<=olap<1, "
        "1<=bmin<N/2, 1<=Lmin<=N, Jdes>=1, Kdes>=1 with boundary-seeking classes "
        "((1-olap)*L<1, Lmin=N, bmin->N/2, Jdes=1, Kdes=1, tiny N, Kaiser default overlap); "
        "each is given to all four schedulers directly and, every fourth one, through "
        "SpectrumAnalyzer.plan() with a probe on every scheduler call.  A case is distinct by "
        "(scheduler, configuration) and non-trivial when the plan has >=3 bins and a bin "
        "with K>=2.")
ASSUMPTIONS = [
    "integer oracle refmodel.plan_safety is the deciding step; no tolerance",
    "admissible set as quantified in the property; Lmin_eff=1, bmin_eff=1 for lpsd",
]
DECIDING_COUNTERS = ["plans_checked", "plans_checked[lpsd]", "plans_checked[ltf]",
                     "plans_checked[vectorized_ltf]", "plans_checked[new_ltf]"]
MIN_NONTRIVIAL = {"quick": 500, "thorough": 5000}
JOBS = {"quick": 8, "thorough": 16}


def shards(tier, seed):
    if tier == "quick":
        n_sh, n, nmax, budget = 8, 450, 20000, 60
    else:
        n_sh, n, nmax, budget = 16, 5000, 300000, 600
    return [{"name": f"plans{i}", "threads": 1, "timeout": budget * 4 + 300,
             "params": {"seed": seed, "shard": i, "n": n, "nmax": nmax, "budget_s": budget}}
            for i in range(n_sh)] + [{"name": "threaded", "threads": 1, "timeout": 900,
                                      "params": {"kind": "threaded", "seed": seed, "nthreads": 4,
                                                 "per_thread": 40 if tier == "quick" else 400}}] \
        + ([{"name": "repo-tests", "threads": 4, "timeout": 2400,
                                       "params": {"kind": "repo-tests"}}] if tier == "thorough" else [])


def run_shard(params, rec):
    if params.get("kind") == "repo-tests":
        return planwork.run_repo_tests(ID, rec)
    if params.get("kind") == "threaded":
        return planwork.run_threaded_shard(ID, params, rec)
    planwork.run_mixed_shard(ID, params, rec)


def replay(case, rec):
    planwork.replay_case(ID, case, rec)
