"""C16 - fractional time shifting is exact Lagrange interpolation."""
import math
import time

import numpy as np

from .. import gen, refmodel

ID = "C16"
LEVEL = "exploration"
RULE = ("(taps) lagrange_taps(d, h) for odd orders 1..111 and d in [0,1) (incl. 0, 1e-9, 0.5, "
        "1-1e-9) vs textbook weights prod_{m!=k}(d-m)/(k-m) computed in rational arithmetic "
        "(1e-12), sum = 1; (constant shift) timeshift(x, s, p) for s in {0, +-integers, "
        "+-fractions, +-(N-1), +-N, +-(N+h), +-10N, 1e-9, 1-1e-9}: every interior output equals "
        "the stencil sum with reference weights (1e-12*max|x|), polynomials of degree <= min(p,7) "
        "are reproduced, integer shifts are exact displacements with end values held, zero shift "
        "returns the data; (time-varying) per-sample shift vectors {constant, ramp, random small, "
        "random large} on records up to 70000 samples: sampled interior outputs equal the "
        "reference stencil, and agree with the constant path; (DataFrame) df_timeshift applies "
        "seconds*fs to the selected numeric columns only, with suffix/inplace/truncate semantics. "
        "Distinct by case descriptor; non-trivial: at least one interior sample.")
ASSUMPTIONS = ["reference weights via fractions.Fraction (exact), rounded once to float64"]
DECIDING_COUNTERS = ["taps_checked", "const_interior_samples", "varying_interior_samples",
                     "inplace_update_histories",
                     "integer_shift_cases", "poly_cases", "df_cases", "const_vs_varying"]
MIN_NONTRIVIAL = {"quick": 400, "thorough": 8000}
JOBS = {"quick": 8, "thorough": 16}
ORDERS = [1, 3, 5, 7, 9, 11, 21, 31, 51, 71, 111]


def shards(tier, seed):
    if tier == "quick":
        n_sh, n, budget = 8, 60, 40
    else:
        n_sh, n, budget = 16, 1500, 300
    return [{"name": f"ts{i}", "threads": 1, "timeout": budget * 4 + 300,
             "params": {"seed": seed, "shard": i, "n": n, "budget_s": budget, "tier": tier}}
            for i in range(n_sh)]


_REF_CACHE = {}


def ref_taps(d, h):
    key = (float(d), int(h))
    if key not in _REF_CACHE:
        if len(_REF_CACHE) > 20000:
            _REF_CACHE.clear()
        _REF_CACHE[key] = refmodel.lagrange_ref(d, h)
    return _REF_CACHE[key]


def taps_case(rec, seedt):
    from speckit import dsp
    rng = gen.rng_for(*seedt)
    order = int(rng.choice(ORDERS))
    h = (order + 1) // 2
    ds = np.concatenate([[0.0, 1e-9, 0.5, 1 - 1e-9], rng.uniform(0, 1, size=4)])
    desc = {"kind": "taps", "seed": list(seedt), "order": order}
    rec.case(desc, nontrivial=True)
    try:
        taps = dsp.lagrange_taps(ds, h)
    except Exception as e:
        rec.violation("taps-raises", f"lagrange_taps raised {type(e).__name__}: {e}")
        return
    if taps.shape != (len(ds), 2 * h):
        rec.violation("taps-shape", f"lagrange_taps shape {taps.shape} != {(len(ds), 2 * h)}")
        return
    for i, d in enumerate(ds):
        ref = ref_taps(d, h)
        rec.count("taps_checked")
        err = float(np.max(np.abs(taps[i] - ref)))
        rec.ratio("taps_err_over_1e-12", err / 1e-12)
        if err > 1e-12:
            k = int(np.argmax(np.abs(taps[i] - ref)))
            rec.violation("taps-not-lagrange", f"order {order}, d={d!r}: tap {k} = {taps[i][k]!r}, "
                                               f"textbook weight {ref[k]!r}")
        if abs(float(np.sum(taps[i])) - 1) > 1e-12:
            rec.violation("taps-sum", f"order {order}, d={d!r}: taps sum to {np.sum(taps[i])!r}")


def stencil_value(x, n, s, h):
    fl = math.floor(s)
    d = s - fl
    lo = n + fl - (h - 1)
    if lo < 0 or lo + 2 * h - 1 > len(x) - 1:
        return None
    return float(np.dot(ref_taps(d, h), x[lo:lo + 2 * h]))


def const_case(rec, seedt, tier):
    from speckit import dsp
    rng = gen.rng_for(*seedt)
    order = int(rng.choice(ORDERS))
    h = (order + 1) // 2
    N = int(rng.choice([2, 3, 10, 50, 200, 5000, 20000, 16384, 16385, 32769]
                       + ([70000, 65537] if tier == "thorough" else [])))
    skind = str(rng.choice(["frac", "frac", "negfrac", "int", "negint", "edge", "tiny", "big"]))
    if skind == "frac":
        s = float(rng.uniform(0, 6))
    elif skind == "negfrac":
        s = -float(rng.uniform(0, 6))
    elif skind == "int":
        s = float(rng.integers(1, 8))
    elif skind == "negint":
        s = -float(rng.integers(1, 8))
    elif skind == "edge":
        s = float(rng.choice([-1, 1])) * float(rng.choice([N - 1, N, N + h, 10 * N, N - 1.5, N / 2]))
    elif skind == "tiny":
        s = float(rng.choice([1e-9, 1 - 1e-9, -1e-9]))
    else:
        s = float(rng.uniform(-N, N))
    if rng.random() < 0.08:
        # numerically-zero and barely-non-integer shifts: the fractional part rounds to 0 or 1
        s = float(rng.choice([-1e-17, 1e-17, -1e-300, -5e-324, 5e-324, 0.3 - 0.1 - 0.2,
                              1 - 1e-17, -1 + 1e-17, 2 + 4e-16, -3 - 4e-16]))
        skind = "rounding-edge"
    rkind = str(rng.choice(["random", "poly", "int"]))
    t = np.linspace(-1, 1, N)
    deg = None
    if rkind == "random":
        x = rng.standard_normal(N)
    elif rkind == "int":
        x = rng.integers(-1000, 1000, size=N)
    else:
        deg = int(rng.integers(0, min(order, 7) + 1))
        co = rng.uniform(-1, 1, size=deg + 1)
        x = np.polynomial.polynomial.polyval(t, co)
    usc = 1.0
    if rkind != "int" and rng.random() < 0.25:
        # the same samples in another unit (exact rescaling; the tolerances below are relative)
        usc = 2.0 ** int(rng.choice([-300, -100, -30, 30, 100, 300]))
        x = x * usc
        rec.count("const_cases_in_rescaled_units")
    desc = {"kind": "const", "seed": list(seedt), "order": order, "N": N, "s": s, "skind": skind,
            "rec": rkind, "tier": tier}
    rec.case(desc, nontrivial=False)
    xin = x.copy()
    # the same request in the forms a caller may use: list / float32-exact data, shift as python
    # float, int, 0-d array or numpy scalar
    form = str(rng.choice(["array", "array", "list", "shift-0d", "shift-npfloat", "shift-int"]))
    desc["form"] = form
    xarg, sarg = x, s
    if form == "list":
        xarg = x.tolist()
    elif form == "shift-0d":
        sarg = np.array(s)
    elif form == "shift-npfloat":
        sarg = np.float64(s)
    elif form == "shift-int" and s == math.floor(s):
        sarg = int(s)
    try:
        out = dsp.timeshift(xarg, sarg, order)
    except Exception as e:
        rec.violation("timeshift-raises", f"timeshift(N={N}, s={s}, order={order}) raised "
                                          f"{type(e).__name__}: {e}")
        return
    if not np.array_equal(x, xin):
        rec.violation("timeshift-modifies-input", "timeshift wrote to its input array")
    out = np.asarray(out)
    if out.shape != (N,):
        rec.violation("timeshift-shape", f"output shape {out.shape} != ({N},)")
        return
    xf = np.asarray(x, dtype=float)
    mx = float(np.max(np.abs(xf))) or 1.0
    if s == math.floor(s):
        rec.count("integer_shift_cases")
        exp = xf[np.clip(np.arange(N) + int(s), 0, N - 1)]
        if not np.array_equal(out.astype(float), exp):
            j = int(np.argmax(out.astype(float) != exp))
            rec.violation("integer-shift-not-displacement",
                          f"order {order}, N={N}, s={s}: out[{j}]={out[j]!r} != x[clip({j}+s)]={exp[j]!r}")
    # interior samples against the reference stencil
    fl = math.floor(s)
    lo_n = max(0, (h - 1) - fl)
    hi_n = min(N - 1, N - 1 - h - fl)
    if hi_n >= lo_n:
        rec.mark_nontrivial(desc)
        idx = np.unique(np.concatenate([[lo_n, hi_n], rng.integers(lo_n, hi_n + 1, size=12)]))
        for n in idx:
            ref = stencil_value(xf, int(n), s, h)
            if ref is None:
                continue
            rec.count("const_interior_samples")
            err = abs(float(out[n]) - ref)
            rec.ratio("const_err_over_1e-12", err / (1e-12 * mx))
            if err > 1e-12 * mx:
                rec.violation("constant-shift-not-lagrange",
                              f"order {order}, N={N}, s={s!r}: out[{n}]={out[n]!r} but the degree-"
                              f"{order} interpolant through x[{n + fl - (h - 1)}..{n + fl + h}] "
                              f"gives {ref!r}")
                break
        if rkind == "poly":
            rec.count("poly_cases")
            n = np.arange(lo_n, hi_n + 1)
            dt = 2.0 / (N - 1) if N > 1 else 0.0
            exact = usc * np.polynomial.polynomial.polyval(-1 + (n + s) * dt, co)
            err = float(np.max(np.abs(out[n] - exact)))
            tol = 1e-9 * max(mx, float(np.max(np.abs(exact))), 1e-300)
            rec.ratio("poly_err_over_tol", err / tol)
            if err > tol:
                rec.violation("polynomial-not-reproduced",
                              f"degree-{deg} polynomial, order {order}, s={s!r}, N={N}: max "
                              f"interior error {err:.3e}")
    # zero shift is the identity
    z = dsp.timeshift(x, 0.0, order)
    if not np.array_equal(np.asarray(z), x):
        rec.violation("zero-shift-not-identity", "timeshift(x, 0) != x")


def single_sample_case(rec, seedt):
    """A one-sample record: every shift returns that sample (end values are held)."""
    from speckit import dsp
    rng = gen.rng_for(*seedt)
    v = float(rng.standard_normal())
    s = float(rng.choice([0.0, 0.3, -2.0, 7.5, 1e6]))
    order = int(rng.choice(ORDERS))
    desc = {"kind": "single-sample", "seed": list(seedt), "s": s, "order": order}
    rec.case(desc, nontrivial=False)
    rec.count("single_sample_cases")
    try:
        out = dsp.timeshift(np.array([v]), s, order)
        if float(np.asarray(out).ravel()[0]) != v or np.asarray(out).size != 1:
            rec.violation("single-sample-record", f"timeshift([{v}], {s}) = {out!r}")
    except Exception as e:
        rec.violation("timeshift-raises", f"one-sample record: {type(e).__name__}: {e}")


def varying_case(rec, seedt, tier):
    from speckit import dsp
    rng = gen.rng_for(*seedt)
    order = int(rng.choice(ORDERS))
    h = (order + 1) // 2
    N = int(rng.choice([3, 10, 50, 200, 5000, 20000, 40000] + ([70000] if tier == "thorough" else [])))
    kind = str(rng.choice(["constant", "ramp", "small", "large", "intvec", "int-ends-ramp",
                           "periodic", "first-eq-last", "const-but-one", "sorted", "mostly-int",
                           "all-interior-ramp", "all-interior-random"]))
    if kind == "constant":
        sh = np.full(N, float(rng.uniform(-4, 4)))
    elif kind in ("all-interior-ramp", "all-interior-random") and N > 4 * h + 12:
        # EVERY stencil inside the record: shifts point inwards at both ends (a time-compression
        # ramp, or random shifts confined to what the position allows)
        n_ = np.arange(N)
        lo_s = (h - 1) - n_ + 0.01                 # n + floor(s) - (h-1) >= 0
        hi_s = (N - 1 - h) - n_ - 0.01             # n + floor(s) + h <= N-1
        if kind == "all-interior-ramp":
            sh = np.linspace(h + float(rng.uniform(0, 4)), -(h + float(rng.uniform(0, 4))), N)
        else:
            sh = rng.uniform(-5, 5, size=N)
        sh = np.minimum(np.maximum(sh, lo_s), hi_s)
    elif kind == "int-ends-ramp":
        # shift vectors that look special from a summary (their ends, their first elements) only
        sh = np.linspace(float(rng.integers(-3, 1)), float(rng.integers(1, 4)), N)
    elif kind == "periodic":
        sh = float(rng.uniform(0.2, 3)) * np.sin(2 * np.pi * int(rng.integers(1, 4))
                                                 * np.arange(N) / max(N - 1, 1)) \
            + float(rng.choice([0.0, 0.25, -1.5]))
        sh[-1] = sh[0]
    elif kind == "first-eq-last":
        sh = rng.uniform(-5, 5, size=N)
        sh[-1] = sh[0]
    elif kind == "const-but-one":
        sh = np.full(N, float(rng.uniform(-4, 4)))
        sh[int(rng.integers(0, N))] += float(rng.uniform(0.1, 0.9))
    elif kind == "sorted":
        sh = np.sort(rng.uniform(-5, 5, size=N))
    elif kind == "mostly-int":
        sh = rng.integers(-4, 5, size=N).astype(float)
        k = max(1, N // 10)
        sh[rng.integers(0, N, size=k)] += rng.uniform(0.05, 0.95, size=k)
    elif kind == "ramp":
        sh = np.linspace(float(rng.uniform(-3, 0)), float(rng.uniform(0, 3)), N)
    elif kind == "small":
        sh = rng.uniform(-5, 5, size=N)
    elif kind == "large":
        sh = rng.uniform(-N, N, size=N)
    else:
        sh = rng.integers(-4, 5, size=N).astype(float)
    x = rng.standard_normal(N) if rng.random() < 0.7 else np.linspace(-1, 1, N) ** 3
    if rng.random() < 0.25:
        x = x * 2.0 ** int(rng.choice([-300, -100, -30, 30, 100, 300]))
    desc = {"kind": "varying", "seed": list(seedt), "order": order, "N": N, "shifts": kind,
            "tier": tier}
    rec.case(desc, nontrivial=False)
    try:
        out = np.asarray(dsp.timeshift(x, sh, order))
    except Exception as e:
        rec.violation("timeshift-raises", f"time-varying timeshift(N={N}, order={order}, {kind}) "
                                          f"raised {type(e).__name__}: {e}")
        return
    if np.all(sh == 0):
        return
    if out.shape != (N,):
        rec.violation("timeshift-shape", f"output shape {out.shape} != ({N},)")
        return
    mx = float(np.max(np.abs(x))) or 1.0
    fl = np.floor(sh).astype(int)
    lo = np.arange(N) + fl - (h - 1)
    interior = np.nonzero((lo >= 0) & (lo + 2 * h - 1 <= N - 1))[0]
    if interior.size == 0:
        return
    rec.mark_nontrivial(desc)
    # sample across the whole record (block boundaries included)
    pick = np.unique(np.concatenate([interior[:2], interior[-2:],
                                     rng.choice(interior, size=min(40, interior.size))]))
    for n in pick:
        ref = stencil_value(x, int(n), float(sh[n]), h)
        if ref is None:
            continue
        rec.count("varying_interior_samples")
        err = abs(float(out[n]) - ref)
        rec.ratio("varying_err_over_1e-12", err / (1e-12 * mx))
        if err > 1e-12 * mx:
            rec.violation("varying-shift-not-lagrange",
                          f"order {order}, N={N}, {kind} shifts: out[{n}]={out[n]!r}, reference "
                          f"stencil at n+s={n + sh[n]!r} gives {ref!r}")
            break
    # History: the caller updates the SAME shift vector (and the same data buffer) in place and
    # calls again - the result must be the interpolation for the current contents.
    if N <= 20000 and seedt[-1] % 2 == 0:
        sh += float(rng.choice([0.37, -1.25, 0.5, 2.0]))
        if rng.random() < 0.5:
            x *= 1.5
        try:
            out2 = np.asarray(dsp.timeshift(x, sh, order))
        except Exception as e:
            rec.violation("timeshift-raises", f"second call raised {type(e).__name__}: {e}")
            return
        rec.count("inplace_update_histories")
        fl2 = np.floor(sh).astype(int)
        lo2 = np.arange(N) + fl2 - (h - 1)
        int2 = np.nonzero((lo2 >= 0) & (lo2 + 2 * h - 1 <= N - 1))[0]
        mx2 = float(np.max(np.abs(x))) or 1.0
        if int2.size:
            for n in np.unique(rng.choice(int2, size=min(25, int2.size))):
                ref = stencil_value(x, int(n), float(sh[n]), h)
                if ref is not None and abs(float(out2[n]) - ref) > 1e-12 * mx2:
                    rec.violation("stale-after-inplace-update",
                                  f"order {order}, N={N}: second call after the shift vector was "
                                  f"updated in place: out[{n}]={out2[n]!r}, reference {ref!r}")
                    break
        sh -= 0.0  # (kept as is: the comparison below uses the current vector)
        out = out2
        fl = fl2
        interior = int2
        mx = mx2
        if interior.size == 0:
            return
    if kind == "constant":
        rec.count("const_vs_varying")
        oc = np.asarray(dsp.timeshift(x, float(sh[0]), order))
        err = float(np.max(np.abs(oc[interior] - out[interior])))
        if err > 1e-12 * mx:
            j = int(interior[int(np.argmax(np.abs(oc[interior] - out[interior])))])
            rec.violation("constant-vs-varying-path",
                          f"order {order}, N={N}, s={sh[0]!r}: constant path gives {oc[j]!r}, "
                          f"time-varying path {out[j]!r} at interior n={j}")


def df_case(rec, seedt):
    import pandas as pd
    from speckit import dsp
    rng = gen.rng_for(*seedt)
    N = int(rng.choice([40, 300, 2000]))
    fs = float(rng.choice([1.0, 10.0, 250.0]))
    seconds = float(rng.choice([0.0, 0.37, -1.2, 3.0, 0.004])) if rng.random() < 0.6 else \
        float(rng.uniform(-5, 5)) / fs
    df = pd.DataFrame({"a": rng.standard_normal(N), "b": np.arange(N, dtype=float) ** 2,
                       "c": rng.integers(0, 100, size=N), "label": ["x"] * N})
    cols = [None, ["a"], ["a", "c"], ["b", "label"]][int(rng.integers(0, 4))]
    inplace = bool(rng.random() < 0.5)
    clash = bool(rng.random() < 0.2)
    if clash:
        # a frame that already carries an "a_shifted" column (the output of an earlier call, or the
        # caller's own), selected together with "a": every selected column is shifted from the
        # INPUT frame's data
        df["a_shifted"] = rng.standard_normal(N) * 3.0
        cols = [None, ["a", "a_shifted"], ["a_shifted", "a"]][int(rng.integers(0, 3))]
        rec.count("df_cases_with_suffix_clash")
    trunc = [None, True, 3, 0][int(rng.integers(0, 4))]
    desc = {"kind": "df", "seed": list(seedt), "N": N, "fs": fs, "seconds": seconds,
            "columns": cols, "inplace": inplace, "truncate": trunc, "clash": clash}
    rec.case(desc, nontrivial=True)
    rec.count("df_cases")
    # index flavours a caller's frame realistically has (slice that keeps its labels, float time
    # index, rows re-ordered without reset_index): the wrapper works on row POSITION
    ikind = str(rng.choice(["default", "default", "offset-labels", "float-time", "shuffled-labels"]))
    if ikind == "offset-labels":
        df.index = np.arange(1000, 1000 + N)
    elif ikind == "float-time":
        df.index = np.arange(N) / 7.0 + 3.5
    elif ikind == "shuffled-labels":
        df.index = rng.permutation(N)
    desc["index"] = ikind
    df0 = df.copy(deep=True)
    try:
        out = dsp.df_timeshift(df, fs, seconds, columns=cols, truncate=trunc, inplace=inplace)
    except Exception as e:
        rec.violation("df_timeshift-raises", f"{type(e).__name__}: {e} for {desc}")
        return
    if not df.equals(df0):
        rec.violation("df_timeshift-modifies-input", "the caller's DataFrame was modified")
    if seconds == 0.0:
        if not out.equals(df0):
            rec.violation("df-zero-shift", "zero seconds must return the data unchanged")
        return
    sel = list(df.columns) if cols is None else cols
    n_tr = 0
    if trunc is not None:
        n_tr = int(2 * abs(seconds * fs)) if isinstance(trunc, bool) else int(trunc)
    sl = slice(n_tr, N - n_tr) if n_tr > 0 else slice(None)
    if n_tr > 0 and 2 * n_tr >= N:
        if len(out) != 0:
            rec.violation("df-truncate", "over-long truncation must give an empty frame")
        return
    if len(out) != len(df0.iloc[sl]):
        rec.violation("df-truncate", f"truncate={trunc}: {len(out)} rows, expected "
                                     f"{len(df0.iloc[sl])}")
        return
    if not np.array_equal(np.asarray(out.index), np.asarray(df0.iloc[sl].index)):
        rec.violation("df-index-changed", f"result index differs from the input's (index kind {ikind})")
        return
    for c in df.columns:
        numeric = df[c].dtype.kind in "biufc"
        target = c if inplace else f"{c}_shifted"
        if c in sel and numeric:
            exp = np.asarray(dsp.timeshift(df0[c].to_numpy(), seconds * fs))[sl]
            if target not in out.columns:
                rec.violation("df-missing-shifted-column", f"column {target} missing")
                continue
            got = out[target].to_numpy()
            if not np.allclose(got, exp, rtol=1e-12, atol=1e-12 * (np.max(np.abs(exp)) or 1)):
                rec.violation("df-wrong-shift", f"column {c}: not timeshift(col, seconds*fs = "
                                                f"{seconds * fs!r})")
            # independent interior check with the reference stencil (default order 31)
            xcol = df0[c].to_numpy().astype(float)
            full = np.asarray(dsp.timeshift(df0[c].to_numpy(), seconds * fs))
            for n in rng.integers(0, N, size=6):
                ref = stencil_value(xcol, int(n), seconds * fs, 16)
                if ref is not None and abs(full[n] - ref) > 1e-9 * (np.max(np.abs(xcol)) or 1):
                    rec.violation("df-wrong-shift", f"column {c}: sample {n} is not the value at "
                                                    f"n + seconds*fs")
                    break
            overwritten = (not inplace) and any(f"{o}_shifted" == c for o in sel
                                                 if df[o].dtype.kind in "biufc")
            if not inplace and not overwritten \
                    and not np.array_equal(out[c].to_numpy(), df0[c].to_numpy()[sl]):
                rec.violation("df-original-column-changed", f"column {c} changed although "
                                                            f"inplace=False")
        else:
            overwritten = (not inplace) and any(f"{o}_shifted" == c for o in sel
                                                 if o in df.columns and df[o].dtype.kind in "biufc")
            if c in out.columns and not overwritten \
                    and not np.array_equal(out[c].to_numpy(), df0[c].to_numpy()[sl]):
                rec.violation("df-unselected-column-touched", f"column {c} was not selected (or is "
                                                              f"not numeric) but changed")
            if not inplace and f"{c}_shifted" in out.columns and f"{c}_shifted" not in df.columns:
                rec.violation("df-unselected-column-touched", f"column {c}_shifted created for an "
                                                              f"unselected / non-numeric column")


def run_shard(params, rec):
    t0 = time.time()
    seed, sh, tier = params["seed"], params["shard"], params["tier"]
    for i in range(params["n"]):
        if time.time() - t0 > params["budget_s"]:
            rec.note(f"time budget reached after {i}")
            break
        taps_case(rec, [seed, sh, "taps", i])
        const_case(rec, [seed, sh, "const", i], tier)
        const_case(rec, [seed, sh, "const2", i], tier)
        varying_case(rec, [seed, sh, "var", i], tier)
        if i % 3 == 0:
            df_case(rec, [seed, sh, "df", i])
        if i % 10 == 0:
            single_sample_case(rec, [seed, sh, "one", i])


def replay(case, rec):
    k = case["kind"]
    if k == "taps":
        taps_case(rec, case["seed"])
    elif k == "const":
        const_case(rec, case["seed"], case.get("tier", "quick"))
    elif k == "single-sample":
        single_sample_case(rec, case["seed"])
    elif k == "varying":
        varying_case(rec, case["seed"], case.get("tier", "quick"))
    else:
        df_case(rec, case["seed"])
