"""C06 - spectral densities are calibrated: power, bandwidth and scaling laws."""
import math
import time

import numpy as np

from .. import api, gen, refmodel

ID = "C06"
LEVEL = "exploration"
RULE = ("(a) calibration: a sinusoid A*sin(2*pi*f0*t+phi), f0 at fractional bin b0 in [ml, L/2-ml] "
        "of a length-L Kaiser(psll in [60,200]) segment, analysed with compute_single_bin at f0 "
        "(1-6 segments, orders -1..2, random fs) must give ps = A^2/2 within c*10^(-psll/20)+1e-9 "
        "and ENBW = fs*sum(w^2)/(sum w)^2 (1e-12); the same for every distinct L of a real plan. "
        "(b) scaling laws on random one/two-channel records: channel x c -> density x c^2, cross "
        "x c, coherence unchanged, Hxy / c resp. x c (1e-11; powers of two bitwise-exact class); "
        "fs -> a*fs -> f, ENBW x a, densities / a, asserted when both plans have identical (L, D). "
        "Distinct by case descriptor; all cases non-trivial except all-zero records.")
ASSUMPTIONS = [
    "power tolerance c=4 (orders -1,0; orders 1,2 with b0>=2*ml), c=200 for orders 1,2 with b0 in "
    "[ml,2*ml) - calibrated worst 0.11 (DESIGN C06)",
    "general (non power-of-two) scale factors are asserted on white/AR(1) records only, where the "
    "rounding of c*x cannot exceed 1e-11 of any bin",
]
DECIDING_COUNTERS = ["calibrations", "calibrations_by_fres", "compute_path_calibrations",
                     "enbw_checked", "scale_pairs",
                     "fs_law_asserted"]
MIN_NONTRIVIAL = {"quick": 400, "thorough": 8000}
JOBS = {"quick": 8, "thorough": 16}


def shards(tier, seed):
    if tier == "quick":
        n_sh, ncal, nsc, budget = 8, 400, 40, 45
    else:
        n_sh, ncal, nsc, budget = 14, 8000, 600, 400
    return [{"name": f"cal{i}", "threads": 2, "timeout": budget * 4 + 300,
             "params": {"seed": seed, "shard": i, "ncal": ncal, "nsc": nsc, "tier": tier,
                        "budget_s": budget}} for i in range(n_sh)]


def post_check(counters):
    a, d = counters.get("fs_law_asserted", 0), counters.get("fs_law_plan_differs", 0)
    if a + d > 0 and a < 0.9 * (a + d):
        return [f"fs relabelling law asserted on only {a} of {a + d} pairs (plans differed)"]
    return []


def calibration_case(rec, seedt, tier):
    from speckit.analysis import SpectrumAnalyzer
    rng = gen.rng_for(*seedt)
    Ls = [64, 100, 257, 1000, 1025, 2049, 4096, 4097] + \
        ([16384, 16385] if tier == "thorough" or rng.random() < 0.1 else [])
    L = int(rng.choice(Ls))
    psll = float(rng.uniform(60, 200))
    ml = refmodel.mainlobe_halfwidth("kaiser", psll)
    if L / 2 - ml <= ml:
        L = 257
    order = int(rng.choice([-1, 0, 1, 2]))
    zone = "wide"
    if order >= 1 and rng.random() < 0.25 and 2 * ml < L / 2 - ml:
        b0 = float(rng.uniform(ml, 2 * ml))
        zone = "near-dc"
    else:
        lo = 2 * ml if order >= 1 else ml
        b0 = float(rng.uniform(lo, L / 2 - ml))
    if rng.random() < 0.15:
        b0 = float(np.clip(round(b0), math.ceil(2 * ml), math.floor(L / 2 - ml)))
        zone = "wide"
    A = 10 ** rng.uniform(-3, 3)
    if rng.random() < 0.3:
        # the same sinusoid in a unit 2^k times smaller or larger (amplitudes 1e-63 .. 1e42)
        A = A * 2.0 ** int(rng.choice([-200, -100, -40, 40, 130]))
        rec.count("calibrations_in_rescaled_units")
    phi = float(rng.uniform(0, 2 * math.pi))
    fs = gen.loguniform(rng, 1e-2, 1e5)
    K = int(rng.integers(1, 7))
    olap = float(rng.choice([0.0, 0.5, 0.75]))
    N = L if K == 1 else int(round(L * (1 + (K - 1) * (1 - olap))))
    f0 = b0 * fs / L
    desc = {"kind": "calibration", "seed": list(seedt), "L": L, "psll": round(psll, 3),
            "order": order, "b0": b0, "A": A, "fs": fs, "N": N, "olap": olap, "zone": zone,
            "tier": tier}
    rec.case(desc, nontrivial=True)
    t = np.arange(N)
    x = A * np.sin(2 * math.pi * b0 / L * t + phi)
    backend = str(rng.choice(["numba", "numba", "numpy"]))
    try:
        an = SpectrumAnalyzer(x, fs, win="kaiser", psll=psll, order=order, olap=olap,
                              backend=backend)
        if rng.random() < 0.35:
            # request by resolution with a non-integer fs/fres that still rounds to L
            fres = fs / (L + float(rng.uniform(-0.4, 0.4)))
            r = an.compute_single_bin(f0, fres=fres)
            rec.count("calibrations_by_fres")
            if int(r.L[0]) != L:
                rec.violation("fres-request-wrong-L", f"fres={fres!r} (fs/fres={fs / fres:.4f}) "
                                                      f"gave L={int(r.L[0])}, expected {L}")
                return
        else:
            r = an.compute_single_bin(f0, L=L)
    except BaseException as e:
        rec.violation("calibration:raises", f"{type(e).__name__}: {e}")
        return
    rec.count("calibrations")
    c = 200.0 if zone == "near-dc" else 4.0
    tol = c * 10 ** (-psll / 20) + 1e-9
    ps = float(r.ps[0])
    err = abs(ps / (A * A / 2) - 1)
    rec.ratio(f"power_err_over_tol[{zone}]", err / tol)
    if not (err <= tol):
        rec.violation("sinusoid-power", f"ps={ps!r} but A^2/2={A * A / 2!r} (rel err {err:.3e} > "
                                        f"{tol:.3e}); L={L}, b0={b0:.4f}, psll={psll:.1f}, "
                                        f"order={order}, K={int(r.K[0])}, backend={backend}")
    w = refmodel.window("kaiser", L, psll=psll)
    enbw = fs * float(np.sum(w * w)) / float(np.sum(w)) ** 2
    rec.count("enbw_checked")
    if abs(float(r.ENBW[0]) - enbw) > 1e-12 * enbw:
        rec.violation("enbw", f"ENBW={float(r.ENBW[0])!r} != fs*S2/S1^2={enbw!r} (L={L})")
    psd = float(r.psd[0])
    if abs(psd * float(r.ENBW[0]) - ps) > 1e-12 * abs(ps):
        rec.violation("ps-ne-psd-times-enbw", f"ps={ps!r}, psd*ENBW={psd * float(r.ENBW[0])!r}")


def plan_calibration_case(rec, seedt):
    """For each distinct L of a real plan: a sinusoid analysed at its own frequency."""
    from speckit.analysis import SpectrumAnalyzer
    rng = gen.rng_for(*seedt)
    N = int(rng.integers(3000, 12000))
    psll = float(rng.uniform(60, 160))
    ml = refmodel.mainlobe_halfwidth("kaiser", psll)
    sched = str(rng.choice(gen.SCHEDS))
    A = 10 ** rng.uniform(-2, 2)
    if rng.random() < 0.3:
        A = A * 2.0 ** int(rng.choice([-200, -100, -40, 40, 130]))
    fs = float(rng.choice([1.0, 50.0, 2048.0]))
    desc = {"kind": "plan-calibration", "seed": list(seedt), "N": N, "psll": round(psll, 2),
            "sched": sched, "A": A, "fs": fs}
    rec.case(desc, nontrivial=True)
    # plan options: also plans that start at a fractional bin number and plans with long
    # full-record plateaus (few averages asked for)
    pkw = dict(Jdes=int(rng.choice([30, 30, 200])), Kdes=int(rng.choice([10, 10, 3, 1])),
               order=int(rng.choice([0, 0, 1])), bmin=float(rng.choice([1.0, 1.0, 2.5, 3.3, 7.7])))
    desc["plan_options"] = dict(pkw)
    try:
        an0 = SpectrumAnalyzer(np.zeros(N), fs, win="kaiser", psll=psll, scheduler=sched, **pkw)
        Ls = sorted(set(int(v) for v in an0.plan()["L"]))
    except ValueError as e:
        rec.blocked(f"plan rejected: {e}")
        return
    Ls = [L for L in Ls if L / 2 - ml > ml + 1 and L >= 64]
    if len(Ls) > 6:
        Ls = list(rng.choice(Ls, size=6, replace=False))
    # (i) through compute(): a sinusoid placed exactly ON a plan frequency f_j is analysed there
    # with L_j, so its bin must read A^2/2 - in the full analysis and in a band-restricted one.
    try:
        p0 = an0.plan()
        cand = [j for j in range(len(p0["f"]))
                if p0["L"][j] >= 64 and ml + 0.5 < p0["b"][j] < p0["L"][j] / 2 - ml - 0.5]
        if cand:
            j = int(rng.choice(cand))
            fj, Lj = float(p0["f"][j]), int(p0["L"][j])
            t = np.arange(N)
            x = A * np.sin(2 * math.pi * fj / fs * t + rng.uniform(0, 6.28))
            tol = 4 * 10 ** (-psll / 20) + 1e-9
            for band in (None, (fj * 0.97, fj * 1.03), (float(p0["f"][max(0, j - 2)]), fj)):
                kw = dict(win="kaiser", psll=psll, scheduler=sched, **pkw)
                if band is not None:
                    kw["band"] = band
                r = SpectrumAnalyzer(x, fs, **kw).compute()
                k = int(np.argmin(np.abs(np.asarray(r.f) - fj)))
                rec.count("compute_path_calibrations")
                if abs(float(r.f[k]) - fj) > 1e-12 * fj:
                    rec.violation("band-loses-bin", f"band {band}: no bin at the plan frequency {fj!r}")
                    continue
                err = abs(float(r.ps[k]) / (A * A / 2) - 1)
                rec.ratio("power_err_over_tol[compute-path]", err / tol)
                if not (err <= tol):
                    rec.violation("sinusoid-power",
                                  f"compute() with band={band}: sinusoid on the plan bin f={fj:.6g} "
                                  f"(L={Lj}) reads ps={float(r.ps[k])!r}, A^2/2={A * A / 2!r} (rel err "
                                  f"{err:.3e} > {tol:.3e}); scheduler {sched}, psll {psll:.1f}")
    except ValueError as e:
        rec.blocked(f"analysis rejected: {e}")
    for L in Ls:
        L = int(L)
        b0 = float(rng.uniform(ml, L / 2 - ml))
        t = np.arange(N)
        x = A * np.sin(2 * math.pi * b0 / L * t + rng.uniform(0, 6.28))
        an = SpectrumAnalyzer(x, fs, win="kaiser", psll=psll, scheduler=sched, order=0)
        r = an.compute_single_bin(b0 * fs / L, L=L)
        rec.count("calibrations")
        tol = 4 * 10 ** (-psll / 20) + 1e-9
        err = abs(float(r.ps[0]) / (A * A / 2) - 1)
        rec.ratio("power_err_over_tol[plan-L]", err / tol)
        if not (err <= tol):
            rec.violation("sinusoid-power", f"plan L={L}: ps rel err {err:.3e} > {tol:.3e} "
                                            f"(b0={b0:.3f}, psll={psll:.1f})")


def rel(a, b):
    # bins whose estimate is rounding noise (e.g. L <= order+1: the detrended segment is
    # identically zero) do not scale; the denominator is floored at 1e-13 of the largest bin
    a, b = np.asarray(a), np.asarray(b)
    s = np.maximum(np.abs(b), max(1e-300, 1e-13 * float(np.max(np.abs(b))) if b.size else 0))
    return float(np.max(np.abs(a - b) / s)) if a.size else 0.0


def scaling_case(rec, seedt, tier):
    from speckit.analysis import SpectrumAnalyzer
    rng = gen.rng_for(*seedt)
    N = int(rng.integers(200, 6000 if tier == "quick" else 30000))
    exact = bool(rng.random() < 0.5)
    recs = gen.RECORD_CLASSES if exact else ["white", "ar1"]
    x = gen.record(rng, N, str(rng.choice(recs)))
    y = gen.second_channel(rng, x, str(rng.choice(["independent", "mixed", "delayed"])))
    c = float(2.0 ** int(rng.integers(-20, 21))) if exact else \
        float(rng.choice([-1, 1])) * 10 ** rng.uniform(-6, 6)
    if exact and rng.random() < 0.5:
        c = -c
    tol = 1e-13 if exact else 1e-11
    sched = str(rng.choice(gen.SCHEDS))
    kw = dict(scheduler=sched, order=int(rng.choice([-1, 0, 1, 2])), Jdes=int(rng.choice([10, 40])),
              Kdes=int(rng.choice([5, 40])), olap=float(rng.choice([0.5, 0.75])),
              backend=str(rng.choice(["numba", "numpy"])))
    kw.update(api.win_args(api.random_window(rng)))
    fs = float(rng.choice([1.0, 3.7, 1000.0]))
    desc = {"kind": "scaling", "seed": list(seedt), "N": N, "c": c, "exact": exact, "sched": sched,
            "tier": tier}
    rec.case(desc, nontrivial=bool(np.any(x != 0)))
    try:
        r0 = SpectrumAnalyzer(np.vstack([x, y]), fs, **kw).compute()
        r1 = SpectrumAnalyzer(np.vstack([c * x, y]), fs, **kw).compute()
        r2 = SpectrumAnalyzer(np.vstack([x, c * y]), fs, **kw).compute()
        a0 = SpectrumAnalyzer(x, fs, **kw).compute()
        a1 = SpectrumAnalyzer(c * x, fs, **kw).compute()
    except ValueError as e:
        rec.blocked(f"analysis rejected: {e}")
        return
    rec.count("scale_pairs")
    checks = [
        ("Gxx*c^2 (ch1 scaled)", r1.Gxx, c * c * r0.Gxx),
        ("Gyy unchanged (ch1 scaled)", r1.Gyy, r0.Gyy),
        ("Gxy*c (ch1 scaled)", r1.Gxy, c * r0.Gxy),
        ("coh unchanged (ch1 scaled)", r1.coh, r0.coh),
        ("Hxy/c (ch1 scaled)", r1.Hxy, r0.Hxy / c),
        ("Gyy*c^2 (ch2 scaled)", r2.Gyy, c * c * r0.Gyy),
        ("Gxy*c (ch2 scaled)", r2.Gxy, c * r0.Gxy),
        ("coh unchanged (ch2 scaled)", r2.coh, r0.coh),
        ("Hxy*c (ch2 scaled)", r2.Hxy, c * r0.Hxy),
        ("psd*c^2 (auto)", a1.psd, c * c * a0.psd),
        ("asd*|c| (auto)", a1.asd, abs(c) * a0.asd),
    ]
    # Bins whose estimate is pure rounding noise (L <= order+1: the detrended segment is
    # identically zero; power below 1e-24 of the largest bin) carry no estimate to scale.
    valid = (np.asarray(r0.L) > kw["order"] + 1) \
        & (r0.Gxx > 1e-24 * np.max(r0.Gxx)) & (r0.Gyy > 1e-24 * np.max(r0.Gyy))
    rec.count("scaling_bins_excluded_rounding_noise", int(np.sum(~valid)))
    rec.count("scaling_bins_asserted", int(np.sum(valid)))
    if not np.any(valid):
        return
    if not exact:
        # a general factor c re-rounds every sample, and the Goertzel recurrence is not
        # covariant under that: allow the recurrence's own rounding (the measured
        # 0.05*u*L*min(L,1/|sin w|) of sum|w x|, ~sqrt(L) times |X| for noise, x4) on top
        Lv = np.asarray(r0.L, dtype=float)[valid]
        sw = np.abs(np.sin(2 * np.pi * np.asarray(r0.f)[valid] / fs))
        grow = Lv * np.minimum(Lv, 1.0 / np.maximum(sw, 1e-300)) * np.sqrt(Lv)
        tol = 1e-11 + 0.2 * refmodel.U * float(np.max(grow))
    for name, got, exp in checks:
        got, exp = np.asarray(got)[valid], np.asarray(exp)[valid]
        e = rel(got, exp)
        # coherence of nearly incoherent channels: absolute tolerance on [0,1]
        if name.startswith("coh"):
            e = float(np.max(np.abs(got - exp)))
        rec.ratio("scaling_err_over_tol" + ("[exact]" if exact else "[general]"), e / tol)
        if not (e <= tol):
            rec.violation("channel-scaling-law", f"{name}: max rel deviation {e:.3e} > {tol:.0e} "
                                                 f"(c={c!r}, scheduler {sched}, {kw['backend']})")

    # ---- sampling-rate relabelling -----------------------------------------------
    a = float(rng.choice([2.0, 0.5, 1024.0, 2.0 ** -10, 3.3, 0.1, 1e-3, 1e4]))
    if exact and a not in (2.0, 0.5, 1024.0, 2.0 ** -10):
        # a factor that is not a power of two re-rounds omega = 2*pi*f/fs; on records with a
        # large offset / dynamic range (only drawn in the 'exact' class) the leakage gradient
        # dX/domega is set by the offset, not by the bin's own value, so no per-bin relative
        # tolerance is meaningful there.  Those records get exact (power-of-two) factors.
        a = float(rng.choice([2.0, 0.5, 1024.0, 2.0 ** -10]))
    try:
        anA = SpectrumAnalyzer(np.vstack([x, y]), fs, **kw)
        anB = SpectrumAnalyzer(np.vstack([x, y]), a * fs, **kw)
        pa, pb = anA.plan(), anB.plan()
        same = (np.array_equal(pa["L"], pb["L"]) and len(pa["D"]) == len(pb["D"]) and
                all(np.array_equal(u, v) for u, v in zip(pa["D"], pb["D"])))
        if not same:
            rec.count("fs_law_plan_differs")
        else:
            ra, rb = anA.compute(), anB.compute()
            rec.count("fs_law_asserted")
            # omega = 2*pi*f/fs is re-rounded when a is not a power of two: a relative
            # perturbation ~2u of omega moves X by up to ~2u*pi*L relative
            tolf = 1e-11 + 8 * refmodel.U * np.pi * float(np.max(ra.L))
            for name, got, exp in [("f*a", rb.f, a * ra.f), ("ENBW*a", rb.ENBW, a * ra.ENBW),
                                   ("Gxx/a", rb.Gxx, ra.Gxx / a), ("Gyy/a", rb.Gyy, ra.Gyy / a),
                                   ("Gxy/a", rb.Gxy, ra.Gxy / a), ("coh", rb.coh, ra.coh),
                                   ("Hxy", rb.Hxy, ra.Hxy), ("r*a", rb.r, a * ra.r)]:
                e = rel(got, exp) if name != "coh" else float(np.max(np.abs(got - exp)))
                rec.ratio("fs_law_err_over_tol", e / tolf)
                if not (e <= tolf):
                    rec.violation("fs-relabelling-law", f"{name}: deviation {e:.3e} (a={a})")
        # single-bin path
        L1 = int(min(N, rng.choice([16, 64, 200])))
        fq = float(rng.uniform(0.02, 0.45)) * fs
        sa = anA.compute_single_bin(fq, L=L1)
        sb = anB.compute_single_bin(fq * a, L=L1)
        rec.count("fs_law_asserted")
        for name, got, exp in [("single Gxx/a", sb.Gxx, sa.Gxx / a), ("single ENBW*a", sb.ENBW, a * sa.ENBW),
                               ("single Gxy/a", sb.Gxy, sa.Gxy / a)]:
            e = rel(got, exp)
            if not (e <= 1e-9):
                rec.violation("fs-relabelling-law", f"{name}: deviation {e:.3e} (a={a})")
    except ValueError as e:
        rec.blocked(f"analysis rejected: {e}")


def run_shard(params, rec):
    t0 = time.time()
    seed, sh, tier = params["seed"], params["shard"], params["tier"]
    for i in range(params["ncal"]):
        if time.time() - t0 > params["budget_s"] * 0.55:
            rec.note(f"calibration budget reached after {i}")
            break
        calibration_case(rec, [seed, sh, "cal", i], tier)
    for i in range(max(1, params["nsc"] // 4)):
        plan_calibration_case(rec, [seed, sh, "plancal", i])
    for i in range(params["nsc"]):
        if time.time() - t0 > params["budget_s"]:
            rec.note(f"scaling budget reached after {i}")
            break
        scaling_case(rec, [seed, sh, "scale", i], tier)


def replay(case, rec):
    k = case.get("kind")
    if k == "calibration":
        calibration_case(rec, case["seed"], case.get("tier", "quick"))
    elif k == "plan-calibration":
        plan_calibration_case(rec, case["seed"])
    elif k == "scaling":
        scaling_case(rec, case["seed"], case.get("tier", "quick"))
    else:
        raise ValueError(k)
