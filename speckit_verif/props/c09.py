"""C09 - cross-spectral quantities satisfy their defining identities and bounds."""
import time

import numpy as np

from .. import api, gen, refmodel, resultcheck, planwork

ID = "C09"
LEVEL = "exploration"
RULE = ("Two-channel analyses (random records incl. couplings with genuine phase: delays 1..50 "
        "samples, first-order all-pass filters; degenerate records: zero, constant, identical, "
        "y=-x, one channel zero, 1e-60/1e+60 scales) x schedulers x windows x orders x backends; "
        "per bin: coherence in [0,1], |Gxy|^2<=Gxx*Gyy, coherence=1 for K=1 and for y=a*x+b, "
        "GyyCx+GyyRx=Gyy, GyySx=Gyy*(1-coh); re-analysis with swapped channels (coh same, Gxy "
        "conjugated, Gxx/Gyy exchanged) and of channel 1 alone (same Gxx).  Distinct by case "
        "descriptor; non-trivial: nf>=3, some K>=2, both channels non-zero.")
ASSUMPTIONS = [
    "identities at 1e-12 (same floating-point expression) or 1e-9 (Cauchy-Schwarz, GyySx, coh=1)",
    "linear dependence with a general (non power-of-two) factor allows the recurrence's rounding",
]
DECIDING_COUNTERS = ["c09_bins", "c09_swap_pairs", "c09_solo_pairs", "c09_lindep_bins",
                     "c09_many_segment_bins",
                     "c09_single_segment_bins", "c09_reads_after_other_attributes"]
MIN_NONTRIVIAL = {"quick": 150, "thorough": 2500}
JOBS = {"quick": 8, "thorough": 16}


def _base_shards(tier, seed):
    if tier == "quick":
        n_sh, n, budget, nmax = 8, 110, 50, 8000
    else:
        n_sh, n, budget, nmax = 16, 600, 500, 60000
    return [{"name": f"id{i}", "threads": 2, "timeout": budget * 4 + 300,
             "params": {"seed": seed, "shard": i, "n": n, "budget_s": budget, "nmax": nmax}}
            for i in range(n_sh)]


def make_pair(rng, N, kind):
    from scipy.signal import lfilter
    x = gen.record(rng, N, str(rng.choice(["white", "ar1", "walk", "sine+noise", "offset1e6",
                                           "int-zero-sum"])))
    s = float(np.std(x)) or 1.0
    if kind == "random":
        y = gen.second_channel(rng, x, str(rng.choice(gen.PAIR_CLASSES)))
    elif kind == "delay":
        d = int(rng.integers(1, 51))
        y = np.roll(x, d) * rng.uniform(0.3, 3) + rng.uniform(0.0, 0.5) * s * rng.standard_normal(N)
    elif kind == "allpass":
        a = float(rng.uniform(-0.9, 0.9))
        y = lfilter([a, 1.0], [1.0, a], x) + rng.uniform(0.0, 0.3) * s * rng.standard_normal(N)
    elif kind == "zero-zero":
        x, y = np.zeros(N), np.zeros(N)
    elif kind == "zero-y":
        y = np.zeros(N)
    elif kind == "zero-x":
        y = x.copy()
        x = np.zeros(N)
    elif kind == "const":
        x, y = np.full(N, 2.5), np.full(N, -1.25)
    elif kind == "identical":
        y = x.copy()
    elif kind == "negated":
        y = -x
    elif kind == "tiny":
        x = 1e-60 * x
        y = 1e-60 * (np.roll(x, 2) * 1e60 + rng.standard_normal(N))
    elif kind == "with-nonfinite":
        y = np.roll(x, 1) * 0.6 + 0.8 * s * rng.standard_normal(N)
        for arr in (x, y):
            idx = rng.integers(0, N, size=max(1, N // 200))
            arr[idx] = rng.choice([np.nan, np.inf, -np.inf], size=idx.size)
    elif kind == "huge":
        x = 1e60 * x / s
        y = 1e60 * (np.roll(x, 3) / 1e60 + rng.standard_normal(N))
    else:
        raise ValueError(kind)
    return np.ascontiguousarray(x, dtype=float), np.ascontiguousarray(y, dtype=float)


KINDS = ["random", "random", "delay", "delay", "allpass", "zero-zero", "zero-y", "zero-x",
         "const", "identical", "negated", "tiny", "huge", "with-nonfinite"]


def one_case(rec, seedt, nmax):
    from speckit.analysis import SpectrumAnalyzer
    rng = gen.rng_for(*seedt)
    desc = api.random_analysis(rng, nmax=nmax, allow_band=False, cross_p=1.0)
    kind = str(rng.choice(KINDS))
    desc.update(kind="identities", pairkind=kind, seed=list(seedt), nmax=nmax)
    N = desc["N"]
    x, y = make_pair(rng, N, kind)
    rec.case(desc, nontrivial=False)
    kw = api.analyzer_kwargs(desc)
    fs = desc["fs"]
    # the pair in the layouts the constructor accepts: 2xN rows, Nx2 columns, list of channels
    lay = str(rng.choice(["2xN", "2xN", "Nx2", "list"]))
    pair = {"2xN": np.vstack([x, y]), "Nx2": np.ascontiguousarray(np.column_stack([x, y])),
            "list": [x, y]}[lay]
    desc["layout"] = lay
    res = api.attempt(rec, lambda: SpectrumAnalyzer(pair, fs, **kw).compute())
    if res is None:
        return
    if res.nf >= 3 and np.any(np.asarray(res.K) >= 2) and np.any(x != 0) and np.any(y != 0):
        rec.mark_nontrivial(desc)
    rec.distinct("pair_kinds", kind)
    tag = f"[{kind}, {desc['backend']}, order {desc['order']}] "
    resultcheck.c09_identities(res, rec, tag)

    # History on the result object: a user reads other quantities (error bars, exports) and comes
    # back to the coherence / residual spectra - they must still be the same, valid values.
    if seedt[-1] % 2 == 0:
        with np.errstate(all="ignore"):
            try:
                coh0 = np.array(res.coh, copy=True)
                names = list(rng.permutation(resultcheck.ERRBARS + ["Gxy_emp_dev", "cf_db", "tf"]))
                for nm in names[:int(rng.integers(1, len(names) + 1))]:
                    getattr(res, nm)
                if rng.random() < 0.3:
                    res.to_dataframe()
                rec.count("c09_reads_after_other_attributes")
                if not np.array_equal(np.asarray(res.coh), coh0, equal_nan=True):
                    j = int(np.argmax(~((np.asarray(res.coh) == coh0))))
                    rec.violation("coherence-changed-by-reading-other-attributes",
                                  f"{tag}coh[{j}] was {coh0[j]!r}; after reading error bars / "
                                  f"exports it is {np.asarray(res.coh)[j]!r}")
                else:
                    resultcheck.c09_identities(res, rec, tag + "(after reading error bars) ")
            except Exception as e:
                rec.violation("result-access-raises", f"{tag}{type(e).__name__}: {e}")

    # swapped channels
    try:
        res_s = SpectrumAnalyzer(np.vstack([y, x]), fs, **kw).compute()
        resultcheck.c09_swap(res, res_s, rec)
    except ValueError as e:
        rec.blocked(f"swap rejected: {e}")
    # channel 1 alone
    try:
        res_a = SpectrumAnalyzer(x, fs, **kw).compute()
        rec.count("c09_solo_pairs")
        mx = float(np.max(np.abs(res.Gxx))) if res.nf else 0.0
        # rounding-noise floor relative to the RAW record: a constant / polynomial record that the
        # detrending removes leaves 1e-32-level noise in every bin; it carries no estimate
        with np.errstate(all="ignore"):
            raw = 2.0 * float(np.max(np.abs(x))) ** 2 * float(np.max(
                np.where(res.S2 > 0, res.S12 / np.where(res.S2 > 0, res.S2, 1), 0))) / fs
        e = resultcheck.relerr(res_a.Gxx, res.Gxx, floor=max(1e-13 * max(mx, 1e-300), 1e-24 * raw))
        m = float(np.max(e)) if e.size else 0.0
        rec.ratio("solo_vs_pair_err_over_1e-10", m / 1e-10)
        if not (m <= 1e-10):
            j = int(np.argmax(e))
            rec.violation("auto-density-alone-vs-pair",
                          f"{tag}Gxx of channel 1 alone = {res_a.Gxx[j]!r}, from the pair = "
                          f"{res.Gxx[j]!r} (bin {j}, f={res.f[j]:.6g}, L={int(res.L[j])})")
    except ValueError as e:
        rec.blocked(f"solo rejected: {e}")

    # linear dependence y = a*x + b
    order = desc["order"]
    exact = bool(rng.random() < 0.5)
    a = float(rng.choice([-1, 1])) * (2.0 ** int(rng.integers(-8, 9)) if exact
                                      else 10 ** rng.uniform(-3, 3))
    b = 0.0 if order == -1 else float(rng.uniform(-5, 5)) * (float(np.std(x)) or 1.0)
    if kind in ("zero-zero", "zero-x", "const", "tiny", "huge"):
        return
    if not exact and kind not in ("random", "delay", "allpass"):
        return
    xs = x
    if not exact:
        xs = gen.record(rng, N, str(rng.choice(["white", "ar1"])))
    ys = a * xs + b
    try:
        res_l = SpectrumAnalyzer(np.vstack([xs, ys]), fs, **kw).compute()
    except ValueError:
        return
    valid = ~resultcheck.noise_bins(res_l, order)
    if b != 0.0:
        # the constant b is removed only to rounding: bins where the estimate is not far
        # above that rounding (relative 1e-16 * b^2 leak) carry no statement at 1e-9
        lim = (abs(b) * 1e-13) ** 2 * np.asarray(res_l.S12) * 1e6
        valid &= np.asarray(res_l.YY) > lim
    if not np.any(valid):
        return
    rec.count("c09_lindep_bins", int(valid.sum()))
    tol = 1e-9
    if not exact:
        L = np.asarray(res_l.L, dtype=float)[valid]
        sw = np.abs(np.sin(2 * np.pi * np.asarray(res_l.f)[valid] / fs))
        tol = 1e-9 + 0.2 * refmodel.U * float(np.max(L * np.minimum(L, 1 / np.maximum(sw, 1e-300))
                                                     * np.sqrt(L)))
    dev = np.abs(np.asarray(res_l.coh)[valid] - 1)
    rec.ratio("lindep_coh_err_over_tol", float(dev.max()) / tol)
    if dev.max() > tol:
        j = int(np.nonzero(valid)[0][int(np.argmax(dev))])
        rec.violation("coherence-linear-dependence",
                      f"{tag}y = {a!r}*x + {b!r} but coh[{j}]={res_l.coh[j]!r} (f={res_l.f[j]:.6g}, "
                      f"L={int(res_l.L[j])}, K={int(res_l.K[j])})")


def cancelling_case(rec, seedt):
    """Exactly incoherent by construction: channel 1 repeats with the segment shift, channel 2 with
    alternating sign, even K - the averaged cross-product is exactly 0 although every segment's is
    not.  Coherence must be exactly 0 (not NaN, not negative), the residual spectra must add up."""
    from speckit.analysis import SpectrumAnalyzer
    rng = gen.rng_for(*seedt)
    L = int(rng.choice([16, 50, 128, 301]))
    K = 2 * int(rng.integers(1, 7))
    p, q = rng.standard_normal(L), rng.standard_normal(L)
    x = np.tile(p, K)
    y = np.tile(np.concatenate([q, -q]), K // 2)
    kw = dict(order=int(rng.choice([-1, 0, 1, 2])), backend=str(rng.choice(["numba", "numpy"])),
              olap=0.0, win=str(rng.choice(["hann", "kaiser"])), psll=120.0)
    desc = {"kind": "cancelling", "seed": list(seedt), "L": L, "K": K, "order": kw["order"],
            "backend": kw["backend"]}
    rec.case(desc, nontrivial=True)
    fq = float(rng.uniform(0.05, 0.45))
    res = api.attempt(rec, lambda: SpectrumAnalyzer(np.vstack([x, y]), 1.0, **kw)
                      .compute_single_bin(fq, L=L))
    if res is None or int(res.K[0]) != K:
        return
    rec.count("c09_exactly_cancelling_pairs")
    tag = f"[cancelling segments, {kw['backend']}, order {kw['order']}] "
    resultcheck.c09_identities(res, rec, tag)
    if not (float(res.coh[0]) == 0.0) and float(res.XX[0]) > 0 and float(res.YY[0]) > 0 \
            and abs(complex(res.XY[0])) == 0.0:
        rec.violation("coherence-of-zero-cross-product", f"{tag}XY is exactly 0 but coh={res.coh[0]!r}")
    rs = api.attempt(rec, lambda: SpectrumAnalyzer(np.vstack([y, x]), 1.0, **kw)
                     .compute_single_bin(fq, L=L))
    if rs is not None:
        resultcheck.c09_swap(res, rs, rec)


def many_segments_case(rec, seedt):
    """One bin averaged over more segments than any internal chunk size (8192/16384/32768 in the
    NumPy fallbacks): the identities must hold there too, and the pair must agree with the
    channels analysed alone."""
    from speckit.analysis import SpectrumAnalyzer
    rng = gen.rng_for(*seedt)
    L = int(rng.choice([4, 8, 16]))
    K_target = int(rng.choice([9000, 17000, 33000, 40000, 70000]))
    olap = float(rng.choice([0.5, 0.75, 0.9]))
    N = int(L + (K_target - 1) * L * (1 - olap)) + 1
    backend = str(rng.choice(["numpy", "numpy", "numba"]))
    order = int(rng.choice([-1, 0, 1, 2]))
    x = gen.record(rng, N, str(rng.choice(["white", "ar1", "walk"])))
    y = gen.second_channel(rng, x, str(rng.choice(["mixed", "delayed", "independent"])))
    desc = {"kind": "many-segments", "seed": list(seedt), "L": L, "N": N, "olap": olap,
            "backend": backend, "order": order}
    rec.case(desc, nontrivial=True)
    fq = float(rng.uniform(0.05, 0.45))
    kw = dict(order=order, backend=backend, olap=olap, win="hann")
    res = api.attempt(rec, lambda: SpectrumAnalyzer(np.vstack([x, y]), 1.0, **kw)
                      .compute_single_bin(fq, L=L))
    if res is None:
        return
    rec.count("c09_many_segment_bins")
    rec.distinct("many_segment_K", int(res.K[0]))
    tag = f"[K={int(res.K[0])}, L={L}, {backend}, order {order}] "
    resultcheck.c09_identities(res, rec, tag)
    rs = SpectrumAnalyzer(np.vstack([y, x]), 1.0, **kw).compute_single_bin(fq, L=L)
    resultcheck.c09_swap(res, rs, rec)
    for ch, name in ((x, "Gxx"), (y, "Gyy")):
        ra = SpectrumAnalyzer(ch, 1.0, **kw).compute_single_bin(fq, L=L)
        a, b = float(ra.Gxx[0]), float(getattr(res, name)[0])
        if abs(a - b) > 1e-9 * abs(a):
            rec.violation("auto-density-alone-vs-pair",
                          f"{tag}{name} from the pair = {b!r}, channel alone = {a!r}")


def run_shard(params, rec):
    if params.get("kind") == "repo-tests":
        # thorough tier: the repository's own tests as a workload, every result they produce
        # checked by this property's result-level monitor (speckit_verif.pytest_plugin)
        return planwork.run_repo_tests(ID, rec, tests=planwork.RESULT_TESTS)
    t0 = time.time()
    for i in range(max(2, params["n"] // 12)):
        many_segments_case(rec, [params["seed"], params["shard"], "many", i])
    for i in range(max(4, params["n"] // 6)):
        cancelling_case(rec, [params["seed"], params["shard"], "cancel", i])
    for i in range(params["n"]):
        if time.time() - t0 > params["budget_s"]:
            rec.note(f"time budget reached after {i}")
            break
        one_case(rec, [params["seed"], params["shard"], i], params["nmax"])


def replay(case, rec):
    if case.get("kind") == "cancelling":
        return cancelling_case(rec, case["seed"])
    if case.get("kind") == "many-segments":
        return many_segments_case(rec, case["seed"])
    one_case(rec, case["seed"], case.get("nmax", 8000))


def shards(tier, seed):
    out = list(_base_shards(tier, seed))
    if tier == "thorough":
        out.append({"name": "repo-tests", "threads": 4, "timeout": 2400,
                    "params": {"kind": "repo-tests"}})
    return out
