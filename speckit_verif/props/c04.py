"""C04 - log-spaced monotone resolution; averaging honours the overlap (DESIGN section 4, C04)."""
import numpy as np

from .. import gen, planwork, refmodel

ID = "C04"
LEVEL = "exploration"
RULE = ("Same seeded configurations as C02 x 4 schedulers (direct + analyzer + probe); every "
        "plan is checked by refmodel.plan_spacing: L non-increasing, navg non-decreasing, navg = "
        "nearest integer to 1+(N-L)/((1-olap)L) capped at N-L+1 (ties: either neighbour), each "
        "start within 0.5 sample of i*(N-L)/(K-1), O = realised mean overlap, and at bins that "
        "the configuration (not the code) says are unclamped: |L - fs/(f*c)| <= 0.5 (vectorised: "
        "down to the next lookup-grid point) and navg >= Kdes - rounding loss.  Paired "
        "ltf/vectorized_ltf plans are compared in bin count (10 %), and force_target_nf "
        "analyses must return exactly the target count or raise.  Distinct by (kind, scheduler, "
        "configuration); non-trivial when the plan has >=3 bins and a bin with K>=2.")
ASSUMPTIONS = [
    "log-spacing clause evaluated for lpsd/ltf/vectorized_ltf only (as the property states)",
    "'unclamped' derived from the configuration: f*c >= fresmin*(1+(1-olap)(Kdes-1)), 1/c >= "
    "bmin, Lmin+0.5 <= fs/(f*c) <= N, K>1",
    "a fixed corpus of two configurations reproduces the two known C04 findings deterministically",
]
DECIDING_COUNTERS = ["plans_checked", "navg_formula_checked", "unclamped_bins", "nf_pairs",
                     "force_nf_cases"]
MIN_NONTRIVIAL = {"quick": 500, "thorough": 5000}
JOBS = {"quick": 8, "thorough": 16}

# Fixed corpus: one witness per known mechanism (DESIGN section 5, #10 and #11) so that the
# KNOWN-FINDING lines are deterministic, plus the former new_ltf L-increase witness.
CORPUS = [
    {"kind": "nf-pair", "cfg": {"N": 36151, "fs": 3.67e-3, "olap": 0.75, "bmin": 1.0, "Lmin": 1,
                                "Jdes": 1, "Kdes": 1000, "klass": "corpus"}},
    {"kind": "nf-pair", "cfg": {"N": 129, "fs": 1.0, "olap": 0.534, "bmin": 1.0, "Lmin": 1,
                                "Jdes": 20, "Kdes": 1000, "klass": "corpus"}},
    {"kind": "direct", "sched": "new_ltf",
     "cfg": {"N": 41229, "fs": 1.0, "olap": 0.852, "bmin": 3.73, "Lmin": 8, "Jdes": 500,
             "Kdes": 1, "klass": "corpus"}},
]


def shards(tier, seed):
    if tier == "quick":
        n_sh, n, nmax, budget = 8, 400, 20000, 60
        force = [{"N": 2000, "targets": [50, 137, 300], "scheds": ["ltf", "lpsd", "new_ltf"]},
                 {"N": 20000, "targets": [137, 1000], "scheds": ["ltf", "vectorized_ltf"]}]
    else:
        n_sh, n, nmax, budget = 16, 5000, 300000, 600
        force = [{"N": 2000, "targets": [50, 137, 300, 1000, 5000, "rnd", "rnd"],
                  "scheds": gen.SCHEDS},
                 {"N": 20000, "targets": [50, 137, 300, 1000, 5000, "rnd", "rnd"],
                  "scheds": gen.SCHEDS},
                 {"N": 5000, "targets": ["rnd"] * 8, "scheds": gen.SCHEDS}]
    out = [{"name": f"plans{i}", "threads": 1, "timeout": budget * 4 + 300,
            "params": {"kind": "plans", "seed": seed, "shard": i, "n": n, "nmax": nmax,
                       "budget_s": budget}}
           for i in range(n_sh)]
    k = 0
    for fset in force:
        for sched in fset["scheds"]:
            out.append({"name": f"force{k}", "threads": 1, "timeout": 3000,
                        "params": {"kind": "force", "seed": seed, "shard": k, "N": fset["N"],
                                   "targets": fset["targets"], "sched": sched}})
            k += 1
    out.append({"name": "corpus", "threads": 1, "timeout": 600,
                "params": {"kind": "corpus"}})
    out.append({"name": "threaded", "threads": 1, "timeout": 900,
                "params": {"kind": "threaded", "seed": seed, "nthreads": 4,
                           "per_thread": 40 if tier == "quick" else 400}})
    if tier == "thorough":
        out.append({"name": "repo-tests", "threads": 4, "timeout": 2400,
                    "params": {"kind": "repo-tests"}})
    return out


def nf_pair(rec, cfg):
    desc = {"kind": "nf-pair", "cfg": cfg}
    rec.case(desc, nontrivial=False)
    try:
        a = planwork.call_scheduler("ltf", cfg)
        b = planwork.call_scheduler("vectorized_ltf", cfg)
    except BaseException as e:
        rec.blocked(f"scheduler raised {type(e).__name__} (C02)")
        return
    rec.count("nf_pairs")
    nl, nv = len(a["f"]), len(b["f"])
    if nl >= 3:
        rec.mark_nontrivial(desc)
    key = refmodel.nf_regime(cfg, nv, nl, a)
    rec.ratio("nf_vec_vs_ltf_rel_diff/0.1", abs(nv - nl) / (0.1 * nl)
              if key in (None, "vec-nf-differs") else 0.0)
    if key is not None:
        rec.violation(key, f"vectorized_ltf has {nv} bins, ltf has {nl} (differs by "
                           f"{abs(nv - nl) / nl:.1%} > 10%); Jdes={cfg['Jdes']}, N={cfg['N']}")


def force_case(rec, N, fs, target, sched, olap, extra_kw, wins=None):
    """Forced bin count.  With `wins` (a list of window specs) the same request is made once per
    window with olap='default' in the same process - each window resolves to a different
    overlap, so a result that depends on an earlier forced plan is exposed."""
    if wins:
        from .. import api
        for w in wins:
            kw = dict(extra_kw)
            kw.update(api.win_args(w))
            force_case(rec, N, fs, target, sched, "default", kw)
        return
    from speckit.analysis import SpectrumAnalyzer
    desc = {"kind": "force-nf", "N": N, "fs": fs, "target": target, "sched": sched,
            "olap": olap, "kw": {k: (v if not callable(v) else getattr(v, "__name__", "win"))
                                 for k, v in extra_kw.items()}}
    rec.case(desc, nontrivial=True)
    rec.count("force_nf_cases")
    try:
        an = SpectrumAnalyzer(np.zeros(N), fs, olap=olap, Jdes=target, scheduler=sched,
                              force_target_nf=True, **extra_kw)
        plan = an.plan()
    except (RuntimeError, ValueError) as e:
        rec.count("force_nf_raised")  # an error is an admissible outcome
        return
    except BaseException as e:
        rec.violation("force-nf-unexpected-exception", f"{type(e).__name__}: {e}")
        return
    rec.count("force_nf_returned")
    nf = len(plan["f"])
    if nf != target or int(plan["nf"]) != target:
        rec.violation("force-nf-wrong-count",
                      f"force_target_nf with target {target} returned a plan with {nf} bins "
                      f"(scheduler {sched}, N={N})")
    # result object built from that plan must report the same count
    try:
        res = an.compute()
        if res.nf != target or len(res.f) != target:
            rec.violation("force-nf-wrong-count", f"result has nf={res.nf}, target {target}")
    except BaseException as e:
        rec.note(f"compute after forced plan raised {e!r}")


def run_shard(params, rec):
    kind = params["kind"]
    if kind == "repo-tests":
        return planwork.run_repo_tests(ID, rec)
    if kind == "threaded":
        return planwork.run_threaded_shard(ID, params, rec)
    if kind == "plans":
        def extra(rec, cfg, rng, i):
            nf_pair(rec, cfg)
        planwork.run_mixed_shard(ID, params, rec, extra)
    elif kind == "force":
        rng = gen.rng_for(params["seed"], "force", params["shard"])
        for t in params["targets"]:
            target = int(rng.integers(20, 2000)) if t == "rnd" else int(t)
            N = int(params["N"])
            if params["sched"] == "vectorized_ltf" and target > 1500:
                target = int(rng.integers(100, 1500))  # dense-map search cost grows with Jdes
            olap = float(rng.choice([0.5, 0.75, 0.3]))
            fs = float(rng.choice([1.0, 10.0, 2.5]))
            kw = {"Kdes": int(rng.choice([10, 100])), "bmin": float(rng.choice([1.0, 2.0])),
                  "Lmin": int(rng.choice([1, 4]))}
            force_case(rec, N, fs, target, params["sched"], olap, kw)
            if params["sched"] != "vectorized_ltf" or target <= 300:
                wins = [{"kind": "kaiser", "psll": 200.0}, {"kind": "hann", "name": "hann"},
                        {"kind": "kaiser", "psll": float(rng.choice([60.0, 120.0]))}]
                force_case(rec, N, fs, target, params["sched"], "default", kw, wins=wins)
    elif kind == "corpus":
        for case in CORPUS:
            replay(case, rec)


def replay(case, rec):
    def extra(c, r):
        if c["kind"] == "nf-pair":
            nf_pair(r, c["cfg"])
        elif c["kind"] == "force-nf":
            kw = dict(c["kw"])
            if kw.get("win") in ("kaiser", "hann", "hanning") or "win" not in kw:
                if c["olap"] == "default":
                    # replay the whole window group so that the history is reproduced
                    base = {k: v for k, v in kw.items() if k not in ("win", "psll")}
                    force_case(r, c["N"], c["fs"], c["target"], c["sched"], "default", base,
                               wins=[{"kind": "kaiser", "psll": 200.0},
                                     {"kind": "hann", "name": "hann"},
                                     {"kind": "kaiser", "psll": 60.0},
                                     {"kind": "kaiser", "psll": 120.0}])
                else:
                    force_case(r, c["N"], c["fs"], c["target"], c["sched"], c["olap"], kw)
        else:
            raise ValueError(c["kind"])
    planwork.replay_case(ID, case, rec, extra)
