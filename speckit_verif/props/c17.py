"""C17 - noise generators are seed-reproducible continuous streams."""
import time

import numpy as np

from .. import gen, refmodel

ID = "C17"
LEVEL = "exploration"
RULE = ("History monitor: for generators {white, red, alpha in {0.01,0.5,1,1.3,2}, pink} x "
        "init_filter {True, False} x seeds, a random partition of a total of 1..20000 samples "
        "into get_series(n_i) requests with n_i drawn from {0, 0, 1, 1, 2, U{1..50}, U{1..5000}} or "
        "from the boundary sizes {4095..4097, 16384/5, 32768/9, 65535..65537, 131073} "
        "(zeros first / last / consecutive, ones mixed with blocks) is concatenated and compared "
        "with ONE get_series(total) of a twin instance built with the same arguments and seed "
        "(bitwise expected; 1e-12*rms asserted); two equal instances give equal samples; a run of "
        "get_sample() equals the prefix of the twin's stream across the 4096-sample refill; "
        "_numba_lfilter_cascade equals a per-section scipy.signal.lfilter cascade with carried "
        "state (1e-12).  Distinct by (generator, parameters, partition); non-trivial: >=2 requests.")
ASSUMPTIONS = [
    "mixing get_sample and NON-EMPTY get_series requests on one instance is not asserted (documented "
    "prefetch buffer); a zero-length get_series(0) inside a get_sample run is: it must change nothing",
]
DECIDING_COUNTERS = ["partition_histories", "twin_pairs", "delayed_twin_pairs", "get_sample_runs",
                     "interleaved_histories",
                     "cascade_compared",
                     "histories_with_request_over_65536",
                     "histories_with_zero_request", "histories_with_single_sample_request"]
MIN_NONTRIVIAL = {"quick": 300, "thorough": 8000}
JOBS = {"quick": 8, "thorough": 16}


def shards(tier, seed):
    if tier == "quick":
        n_sh, n, budget = 8, 300, 40
    else:
        n_sh, n, budget = 16, 15000, 300
    return [{"name": f"ns{i}", "threads": 1, "timeout": budget * 4 + 300,
             "params": {"seed": seed, "shard": i, "n": n, "budget_s": budget}}
            for i in range(n_sh)]


def make_gen(spec):
    from speckit import noise
    k = spec["gen"]
    if k == "white":
        return noise.white_noise(spec["fs"], psd=spec["psd"], seed=spec["seed"])
    if k == "red":
        return noise.red_noise(spec["fs"], spec["fmin"], init_filter=spec["init"], seed=spec["seed"])
    if k == "alpha":
        return noise.alpha_noise(spec["fs"], spec["fmin"], spec["fmax"], spec["alpha"],
                                 init_filter=spec["init"], seed=spec["seed"])
    if k == "pink":
        return noise.pink_noise(spec["fs"], spec["fmin"], spec["fmax"], init_filter=spec["init"],
                                seed=spec["seed"])
    raise ValueError(k)


def random_spec(rng):
    k = str(rng.choice(["white", "red", "alpha", "alpha", "pink"]))
    fs = float(rng.choice([1.0, 10.0, 100.0, 2048.0]))
    fmin = fs * float(rng.choice([1e-3, 1e-2, 0.05]))
    seed = int(rng.integers(0, 2 ** 31))
    if rng.random() < 0.15:
        seed = int(rng.choice([0, 0, 1, 2 ** 31 - 1, 2 ** 32 - 1, 2 ** 32, 2 ** 63 - 1]))   # boundary seeds
    spec = {"gen": k, "fs": fs, "seed": seed,
            "psd": float(10 ** rng.uniform(-2, 2)), "fmin": fmin,
            "fmax": fs * float(rng.choice([0.5, 0.25, 0.1])),   # narrow bands: below
            "alpha": float(rng.choice([0.01, 0.5, 1.0, 1.3, 2.0])),
            "init": bool(rng.random() < 0.4)}
    if rng.random() < 0.2:
        # narrow shaping bands: fmax / fmin from 1.05 to 8 (cascades of one or two sections)
        spec["fmin"] = fs * float(rng.choice([0.01, 0.05, 0.1]))
        spec["fmax"] = min(fs * 0.5, spec["fmin"] * float(rng.choice([1.05, 1.3, 1.6, 1.7, 2.5, 8.0])))
    return spec


BOUNDARY_SIZES = [4095, 4096, 4097, 16384, 16385, 32768, 32769, 65535, 65536, 65537, 131073]
LARGE_SIZES = [2 ** 18, 2 ** 19 - 1, 2 ** 19, 2 ** 19 + 1, 2 ** 20 - 1, 2 ** 20, 2 ** 20 + 1,
               3 * 2 ** 19, 2 ** 21]


def random_partition(rng):
    if rng.random() < 0.07:
        # single requests of 2^18 .. 2^21 samples (block-wise processing inside one call): either
        # the total is one of these sizes, cut at random places, or the requests themselves are
        if rng.random() < 0.5:
            total = int(rng.choice(LARGE_SIZES))
            cuts = sorted(int(c) for c in rng.integers(0, total + 1, size=int(rng.integers(1, 3))))
            edges = [0] + cuts + [total]
            blocks = [b - a for a, b in zip(edges[:-1], edges[1:])]
        else:
            blocks = [int(rng.choice(LARGE_SIZES)) for _ in range(int(rng.integers(1, 3)))]
            if rng.random() < 0.5:
                blocks.insert(int(rng.integers(0, len(blocks) + 1)), int(rng.integers(0, 3)))
        return blocks, "large-sizes"
    if rng.random() < 0.12:
        # requests around and beyond the power-of-two sizes at which implementations switch to
        # block-wise processing or refill buffers
        blocks = [int(rng.choice(BOUNDARY_SIZES)) for _ in range(int(rng.integers(1, 4)))]
        if rng.random() < 0.5:
            blocks.insert(int(rng.integers(0, len(blocks) + 1)), int(rng.integers(0, 3)))
        return blocks, "boundary-sizes"
    total_target = int(rng.choice([1, 2, 5, 100, 5000, int(rng.integers(1, 20001))]))
    blocks = []
    tot = 0
    style = str(rng.choice(["mixed", "zeros-first", "zeros-last", "ones", "ones+blocks", "big"]))
    if style == "zeros-first":
        blocks += [0] * int(rng.integers(1, 4))
    while tot < total_target and len(blocks) < 400:
        c = int(rng.integers(0, 7))
        if style == "ones":
            n = 1
        elif style == "ones+blocks":
            n = 1 if rng.random() < 0.5 else int(rng.integers(2, 300))
        elif style == "big":
            n = int(rng.integers(1, 5001))
        else:
            n = [0, 0, 1, 1, 2, int(rng.integers(1, 51)), int(rng.integers(1, 5001))][c]
        n = min(n, total_target - tot) if n > 0 else 0
        blocks.append(n)
        tot += n
    if style == "zeros-last" or rng.random() < 0.2:
        blocks += [0] * int(rng.integers(1, 3))
    return blocks, style


def partition_case(rec, seedt):
    rng = gen.rng_for(*seedt)
    spec = random_spec(rng)
    blocks, style = random_partition(rng)
    total = int(sum(blocks))
    desc = {"kind": "partition", "seed": list(seedt), "spec": spec, "style": style,
            "n_requests": len(blocks), "total": total, "head": blocks[:12]}
    rec.case(desc, nontrivial=len(blocks) >= 2)
    try:
        a, b = make_gen(spec), make_gen(spec)
        parts = [np.asarray(a.get_series(n)) for n in blocks]
        whole = np.asarray(b.get_series(total))
    except Exception as e:
        rec.violation("generator-raises", f"{spec['gen']} raised {type(e).__name__}: {e} "
                                          f"(requests {blocks[:10]}...)")
        return
    rec.count("partition_histories")
    if any(n > 65536 for n in blocks):
        rec.count("histories_with_request_over_65536")
    if total >= 2 ** 20:
        rec.count("histories_with_total_of_2^20_or_more")
    if 0 in blocks:
        rec.count("histories_with_zero_request")
    if 1 in blocks and any(n >= 2 for n in blocks):
        rec.count("histories_with_single_sample_request")
    rec.distinct("generators", f"{spec['gen']}/{spec['alpha'] if spec['gen'] == 'alpha' else ''}/"
                               f"{spec['init']}")
    for n, p in zip(blocks, parts):
        if p.shape != (n,):
            rec.violation("block-length", f"get_series({n}) returned shape {p.shape}")
            return
    cat = np.concatenate(parts) if parts else np.empty(0)
    rms = float(np.sqrt(np.mean(whole ** 2))) if total else 1.0
    if total and not np.array_equal(cat, whole):
        rec.count("not_bitwise")
        err = float(np.max(np.abs(cat - whole)))
        if err > 1e-12 * rms:
            j = int(np.argmax(np.abs(cat - whole) > 1e-12 * rms))
            # which request does sample j belong to
            edges = np.cumsum([0] + blocks)
            r = int(np.searchsorted(edges, j, side="right") - 1)
            rec.violation(f"chunking-discontinuity:{spec['gen']}",
                          f"{spec['gen']} (init_filter={spec['init']}): concatenation of "
                          f"{len(blocks)} requests ({style}; first requests {blocks[:10]}) differs "
                          f"from one request of {total} from sample {j} (inside request #{r} of "
                          f"size {blocks[r]}); max |diff| {err:.3e}, rms {rms:.3e}")
    # continuation after the history: both instances must still be in the same state
    try:
        ta, tb = np.asarray(a.get_series(50)), np.asarray(b.get_series(50))
        if np.max(np.abs(ta - tb)) > 1e-12 * max(rms, 1e-300):
            rec.violation(f"state-diverged:{spec['gen']}",
                          f"{spec['gen']}: after the same total ({total}) the two instances "
                          f"continue differently (requests {blocks[:10]}, {style})")
    except Exception as e:
        rec.violation("generator-raises", f"{type(e).__name__}: {e}")


POOL = []   # (spec, first samples) of generators built earlier in this process


def delayed_twin_case(rec, seedt):
    """Same arguments and seed => same samples, however many other generators were built in
    between (anything a class remembers across constructions must not leak into a later one)."""
    rng = gen.rng_for(*seedt)
    spec = random_spec(rng)
    spec["init"] = False
    desc = {"kind": "delayed-twin", "seed": list(seedt), "spec": spec, "pool": len(POOL)}
    rec.case(desc, nontrivial=len(POOL) >= 16)
    try:
        POOL.append((spec, np.asarray(make_gen(spec).get_series(300))))
        if len(POOL) >= 17:
            # re-create the generators built 17..40 constructions ago
            for spec0, first in POOL[-40:-16]:
                again = np.asarray(make_gen(spec0).get_series(300))
                rec.count("delayed_twin_pairs")
                if not np.array_equal(again, first):
                    rec.violation(f"not-reproducible-after-history:{spec0['gen']}",
                                  f"a {spec0['gen']} generator re-created with the same arguments "
                                  f"and seed after {len(POOL)} other constructions gives different "
                                  f"samples (max |diff| {np.max(np.abs(again - first)):.3e}); "
                                  f"spec {spec0}")
                    break
        if len(POOL) > 60:
            del POOL[:20]
    except Exception as e:
        rec.violation("generator-raises", f"{type(e).__name__}: {e}")


def interleaved_case(rec, seedt):
    """Several generators alive at once, read in an interleaved order through get_sample() and
    get_series(): each one's stream must be the stream its own same-seed twin produces alone."""
    rng = gen.rng_for(*seedt)
    k = int(rng.integers(2, 5))
    specs = [random_spec(rng) for _ in range(k)]
    for sp in specs:
        sp["init"] = False
    mode = str(rng.choice(["get_sample", "get_sample", "get_series"]))
    n_each = int(rng.choice([50, 4200, 9000])) if mode == "get_sample" else int(rng.integers(3, 40))
    desc = {"kind": "interleaved", "seed": list(seedt), "specs": specs, "mode": mode,
            "n_each": n_each}
    rec.case(desc, nontrivial=True)
    try:
        gens = [make_gen(sp) for sp in specs]
        got = [[] for _ in range(k)]
        if mode == "get_sample":
            order = rng.integers(0, k, size=n_each * k)
            for j in order:
                got[j].append(gens[j].get_sample())
            streams = [np.asarray(g) for g in got]
            refs = [np.asarray(make_gen(sp).get_series(-(-len(s_) // 4096) * 4096 or 4096))[:len(s_)]
                    for sp, s_ in zip(specs, streams)]
        else:
            sizes = [[int(rng.integers(0, 300)) for _ in range(n_each)] for _ in range(k)]
            for i in range(n_each):
                for j in rng.permutation(k):
                    got[j].append(np.asarray(gens[j].get_series(sizes[j][i])))
            streams = [np.concatenate(g) if g else np.empty(0) for g in got]
            refs = [np.asarray(make_gen(sp).get_series(len(s_))) for sp, s_ in zip(specs, streams)]
    except Exception as e:
        rec.violation("generator-raises", f"{type(e).__name__}: {e}")
        return
    rec.count("interleaved_histories")
    for sp, s_, r_ in zip(specs, streams, refs):
        if len(s_) and not np.array_equal(s_, r_):
            j = int(np.argmax(s_ != r_))
            rec.violation(f"interleaving-dependence:{sp['gen']}",
                          f"a {sp['gen']} generator read through {mode} while {k - 1} other "
                          f"generator(s) were read in between differs from its same-seed twin read "
                          f"alone, from sample {j} on")
            break


def twin_case(rec, seedt):
    rng = gen.rng_for(*seedt)
    spec = random_spec(rng)
    n = int(rng.choice([1, 10, 5000]))
    desc = {"kind": "twin", "seed": list(seedt), "spec": spec, "n": n}
    rec.case(desc, nontrivial=True)
    a, b = make_gen(spec), make_gen(spec)
    rec.count("twin_pairs")
    if not np.array_equal(a.get_series(n), b.get_series(n)):
        rec.violation(f"not-reproducible:{spec['gen']}", f"two {spec['gen']} instances with the "
                                                         f"same arguments and seed differ")
    spec2 = dict(spec, seed=spec["seed"] + 1)
    c = make_gen(spec2)
    if n >= 10 and np.array_equal(c.get_series(n), make_gen(spec).get_series(n)):
        rec.violation("seed-ignored", f"{spec['gen']}: different seeds give identical samples")
    # get_sample run vs the twin's stream (crosses the 4096-sample refill)
    m = int(rng.choice([10, 4096, 4097, 5000, 8200]))
    g1, g2 = make_gen(spec), make_gen(spec)
    zero_at = set(int(v) for v in rng.integers(0, m, size=3)) if rng.random() < 0.5 else set()
    run = []
    for i_ in range(m):
        if i_ in zero_at:
            # a zero-length block request asks for nothing: it must leave the stream where it is
            if np.asarray(g1.get_series(0)).shape != (0,):
                rec.violation("block-length", "get_series(0) did not return an empty array")
        run.append(g1.get_sample())
    run = np.array(run)
    if zero_at:
        rec.count("get_sample_runs_with_zero_length_requests")
    nb = -(-m // 4096) * 4096
    stream = np.asarray(g2.get_series(nb))[:m]
    rec.count("get_sample_runs")
    rms = float(np.sqrt(np.mean(stream ** 2))) or 1.0
    if np.max(np.abs(run - stream)) > 1e-12 * rms:
        j = int(np.argmax(np.abs(run - stream) > 1e-12 * rms))
        rec.violation(f"get_sample-stream:{spec['gen']}",
                      f"{spec['gen']}: get_sample() run of {m} differs from the stream at sample {j}")


def design_case(rec, seedt):
    """The colouring filter cascade equals the direct-form reference IIR cascade: the samples of a
    constructed alpha/pink generator equal the same white stream passed through first-order
    sections designed independently from (fs, fmin, fmax, alpha) by the published recipe."""
    from scipy import signal
    rng = gen.rng_for(*seedt)
    spec = random_spec(rng)
    if spec["gen"] not in ("alpha", "pink"):
        spec["gen"] = "alpha"
    spec["init"] = False
    prev = getattr(design_case, "prev", None)
    if prev is not None and seedt[-1] % 4 == 2:
        # history: the previous generator's corners and exponent at ANOTHER sampling rate
        spec = dict(prev, fs=prev["fs"] * float(rng.choice([2.0, 10.0, 2.5])),
                    seed=spec["seed"])
    design_case.prev = dict(spec)
    desc = {"kind": "design", "seed": list(seedt), "spec": spec}
    rec.case(desc, nontrivial=True)
    g = make_gen(spec)
    n = 2000
    y = np.asarray(g.get_series(n))
    fs, fmin, fmax = spec["fs"], spec["fmin"], spec["fmax"]
    alpha = 1.0 if spec["gen"] == "pink" else spec["alpha"]
    lw0, lw1 = np.log10(2 * np.pi * fmin), np.log10(2 * np.pi * fmax)
    ns = int(np.ceil(4.5 * (lw1 - lw0)))
    dp = (lw1 - lw0) / ns
    i = np.arange(ns)
    lp = lw0 + dp * 0.5 * ((2.0 * i + 1.0) - alpha / 2.0)
    f_lo = 10.0 ** lp / (2 * np.pi)
    f_hi = 10.0 ** (lp + dp * alpha / 2.0) / (2 * np.pi)
    w = np.random.default_rng(spec["seed"]).normal(0.0, np.sqrt(1.0 * fs), size=n)
    x = w.copy()
    for k in range(ns):
        den = fs + np.pi * f_lo[k]
        bco = [(fs + np.pi * f_hi[k]) / den, -(fs - np.pi * f_hi[k]) / den]
        aco = [1.0, -(fs - np.pi * f_lo[k]) / den]
        x = signal.lfilter(bco, aco, x)
    x = x / f_hi[-1] ** (alpha / 2.0)
    rec.count("design_compared")
    sc = float(np.max(np.abs(x))) or 1.0
    if y.shape != x.shape or np.max(np.abs(y - x)) > 1e-9 * sc:
        rec.violation("cascade-vs-direct-form-design",
                      f"{spec['gen']} samples differ from the direct-form reference cascade designed "
                      f"from (fs={fs}, fmin={fmin}, fmax={fmax}, alpha={alpha}): max |diff| "
                      f"{np.max(np.abs(y - x)):.3e} (scale {sc:.3e})")


def cascade_case(rec, seedt):
    from speckit import noise
    rng = gen.rng_for(*seedt)
    nsec = int(rng.integers(1, 12))
    n = int(rng.choice([0, 1, 2, 17, 1000]))
    a = np.column_stack([rng.uniform(0.5, 1.5, nsec), rng.uniform(-1, 1, nsec)])
    b = np.column_stack([np.ones(nsec), -rng.uniform(0.0, 0.999, nsec)])
    zi = rng.standard_normal((nsec, 1))
    x = rng.standard_normal(n)
    desc = {"kind": "cascade", "seed": list(seedt), "sections": nsec, "n": n}
    rec.case(desc, nontrivial=n >= 2)
    yr, zr = refmodel.iir_cascade_ref(x, a, b, zi)
    # two consecutive blocks with carried state == one block
    y1, z1 = noise._numba_lfilter_cascade(x.copy(), a.copy(), b.copy(), zi.copy())
    rec.count("cascade_compared")
    sc = max(1.0, float(np.max(np.abs(yr))) if n else 1.0)
    if y1.shape != yr.shape or (n and np.max(np.abs(y1 - yr)) > 1e-12 * sc) \
            or np.max(np.abs(np.asarray(z1) - zr)) > 1e-12 * max(1.0, float(np.max(np.abs(zr)))):
        rec.violation("cascade-vs-reference", f"_numba_lfilter_cascade ({nsec} sections, {n} "
                                              f"samples) differs from the scipy.lfilter cascade")
    if n >= 2:
        k = int(rng.integers(1, n))
        ya, za = noise._numba_lfilter_cascade(x[:k].copy(), a.copy(), b.copy(), zi.copy())
        yb, zb = noise._numba_lfilter_cascade(x[k:].copy(), a.copy(), b.copy(), np.array(za, copy=True))
        if np.max(np.abs(np.concatenate([ya, yb]) - y1)) > 1e-12 * sc:
            rec.violation("cascade-state-handover", "cascade applied in two blocks with carried "
                                                    "state differs from one block")


def run_shard(params, rec):
    t0 = time.time()
    seed, sh = params["seed"], params["shard"]
    for i in range(params["n"]):
        if time.time() - t0 > params["budget_s"]:
            rec.note(f"time budget reached after {i}")
            break
        partition_case(rec, [seed, sh, "part", i])
        delayed_twin_case(rec, [seed, sh, "dtwin", i])
        if i % 4 == 0:
            twin_case(rec, [seed, sh, "twin", i])
        if i % 6 == 0:
            interleaved_case(rec, [seed, sh, "inter", i])
        if i % 2 == 0:
            cascade_case(rec, [seed, sh, "casc", i])
            design_case(rec, [seed, sh, "design", i])


def replay(case, rec):
    k = case["kind"]
    if k == "delayed-twin":
        # the history matters: rebuild the pool the same way the shard did
        s0 = list(case["seed"])
        for i in range(s0[-1] + 1):
            delayed_twin_case(rec, s0[:-1] + [i])
    elif k == "interleaved":
        interleaved_case(rec, case["seed"])
    elif k == "partition":
        partition_case(rec, case["seed"])
    elif k == "twin":
        twin_case(rec, case["seed"])
    elif k == "design":
        s0 = list(case["seed"])
        design_case.prev = None
        for i in range(max(0, s0[-1] - 2), s0[-1] + 1, 2):
            design_case(rec, s0[:-1] + [i])
    else:
        cascade_case(rec, case["seed"])
