"""C10 - analytic error bars are the Bendat-Piersol expressions and predict the scatter."""
import time

import numpy as np

from .. import api, gen, refmodel, resultcheck, planwork

ID = "C10"
LEVEL = "exploration"
RULE = ("(a) every *_dev / *_error attribute of computed results (random one/two-channel analyses) "
        "equals its textbook function of the reported estimate, coherence and navg (1e-12); "
        "(b) synthetic SpectrumResult states built through the public constructor sweep coherence "
        "g2 in [1e-12, 1-1e-12] U {1} (log-dense at both ends), n in {1,2,3,10,1e3,1e6} and "
        "magnitudes 1e-150..1e150: formulas, dev = estimate*error, n -> 4n halves every deviation, "
        "phase error within [1, pi/2] x magnitude error and -> it as g2 -> 1, deg = 180/pi*rad; "
        "(c) Monte-Carlo: white Gaussian x, y = x + sigma*noise, non-overlapping segments "
        "(compute_single_bin, olap=0, N=n*L, L=64, Hann/rectangular), grid of true coherence x n: "
        "ratio of observed spread to mean reported deviation inside [0.85,1.15] (Gxx, Gxy) and "
        "[0.78,1.25] (coherence, |Hxy|).  Distinct by case descriptor.")
ASSUMPTIONS = [
    "Monte-Carlo bands cover 5 sigma of the MC error (2.2 % at R=1000, 4 % at R=300) plus the known "
    "asymptotic bias (< 8 % at n=32)",
    "error bars are asserted only where the reported coherence is > 0 (the property's domain)",
]
DECIDING_COUNTERS = ["c10_bins", "synthetic_states", "quadruple_n_pairs", "mc_cells"]
MIN_NONTRIVIAL = {"quick": 200, "thorough": 3000}
JOBS = {"quick": 8, "thorough": 16}


def _base_shards(tier, seed):
    out = []
    if tier == "quick":
        n_ana, n_syn, budget = 30, 40, 45
        grid = [(0.3, 32), (0.9, 32), (0.3, 128), (0.9, 128)]
        R, wins = 300, ["hann"]
    else:
        n_ana, n_syn, budget = 4000, 3000, 400
        grid = [(g, n) for g in (0.3, 0.6, 0.9) for n in (32, 128, 512)]
        R, wins = 1000, ["hann", "rect"]
    for i in range(4 if tier == "quick" else 8):
        out.append({"name": f"form{i}", "threads": 2, "timeout": budget * 4 + 300,
                    "params": {"kind": "formulas", "seed": seed, "shard": i, "n_ana": n_ana,
                               "n_syn": n_syn, "budget_s": budget}})
    k = 0
    for (g2, n) in grid:
        for w in wins:
            out.append({"name": f"mc{k}", "threads": 1, "timeout": 3000,
                        "params": {"kind": "mc", "seed": seed, "shard": 50 + k, "g2": g2, "n": n,
                                   "R": R, "win": w}})
            k += 1
    return out


def make_state(fs, a, b, g2, phi, n):
    """A SpectrumResult with prescribed XX=a, YY=b, coherence g2, navg=n (public constructor)."""
    from speckit.analysis import SpectrumResult
    m = len(a)
    XY = np.sqrt(g2 * a * b) * np.exp(1j * phi)
    d = {"f": np.linspace(0.01, 0.4, m), "r": np.full(m, 0.01), "b": np.arange(m) + 1.0,
         "L": np.full(m, 64), "K": np.asarray(n, dtype=np.int64),
         "navg": np.asarray(n, dtype=np.int64),
         "D": [np.arange(int(k)) for k in np.minimum(np.asarray(n), 3)], "O": np.zeros(m),
         "XX": a, "YY": b, "XY": XY, "S12": np.full(m, 4.0), "S2": np.full(m, 2.0),
         "M2": np.zeros(m), "compute_t": np.zeros(m)}
    if int(np.sum(n)) % 3 == 0:
        # the constructor documents list-valued entries too
        d = {k: (v.tolist() if isinstance(v, np.ndarray) and k != "XY" else v) for k, v in d.items()}
    return SpectrumResult(d, {"order": 0}, True, fs)


def synthetic_case(rec, seedt):
    rng = gen.rng_for(*seedt)
    m = 64
    ends = np.concatenate([10.0 ** rng.uniform(-12, -1, size=20),
                           1 - 10.0 ** rng.uniform(-12, -1, size=20),
                           rng.uniform(0.05, 0.95, size=23), [1.0]])
    g2 = ends[:m]
    n = rng.choice([1, 2, 3, 10, 1000, 1000000], size=m)
    mag = 10.0 ** rng.uniform(-150, 150) if rng.random() < 0.5 else 10.0 ** rng.uniform(-3, 3)
    a = mag * 10 ** rng.uniform(-2, 2, size=m)
    b = mag * 10 ** rng.uniform(-2, 2, size=m)
    if rng.random() < 0.3:
        # wildly unbalanced channels (|H| up to 1e+-100); every product a*b stays representable
        ea = float(rng.uniform(-165, 165))   # |H| from 1e-165 to 1e+165: |H|^2 is NOT representable
        a = 10.0 ** ea * 10 ** rng.uniform(-2, 2, size=m)
        b = 10.0 ** (-ea) * 10 ** rng.uniform(-2, 2, size=m)
        mag = 10.0 ** ea
    phi = rng.uniform(-np.pi, np.pi, size=m)
    fs = float(rng.choice([1.0, 2.0, 1000.0]))
    desc = {"kind": "synthetic", "seed": list(seedt), "mag": mag, "fs": fs}
    rec.case(desc, nontrivial=True)
    res = make_state(fs, a, b, g2, phi, n)
    rec.count("synthetic_states", m)
    # the constructed state reports the prescribed coherence
    if np.max(np.abs(np.asarray(res.coh) - g2)) > 1e-9:
        rec.note("constructed coherence differs from prescription (rounding) - using reported")
    lens_ok = True
    try:
        # navg / K consistency is part of c10_formulas; D here is deliberately short
        d_lens = np.array([len(x) for x in res.D])
        lens_ok = bool(np.all(d_lens == np.minimum(n, 3)))
    except Exception:
        pass
    _formulas_only(res, rec, "[synthetic] ")
    # n -> 4n halves every deviation
    res4 = make_state(fs, a, b, g2, phi, 4 * n)
    rec.count("quadruple_n_pairs", m)
    names = ["Gxx_dev", "Gyy_dev", "Gxy_dev", "Hxy_dev", "coh_dev", "Gxx_error", "Gxy_error",
             "Hxy_mag_error", "Hxy_rad_error", "coh_error"]
    ok = (np.asarray(res.coh) > 0) & (np.asarray(res.coh) <= 1)
    for nm in names:
        d1, d4 = np.asarray(getattr(res, nm))[ok], np.asarray(getattr(res4, nm))[ok]
        with np.errstate(all="ignore"):
            e = resultcheck.relerr(d1, 2 * d4)
        e = e[np.isfinite(d1) & (d1 != 0)]
        if e.size and float(np.max(e)) > 1e-12:
            rec.violation(f"not-1-over-sqrt-n:{nm}", f"{nm} does not halve when navg is "
                                                     f"quadrupled (max rel {float(np.max(e)):.3e})")
    # phase error -> magnitude error as coherence -> 1
    hi = (g2 > 1 - 1e-9) & (g2 < 1)
    if np.any(hi):
        r = np.asarray(res.Hxy_rad_error)[hi] / np.asarray(res.Hxy_mag_error)[hi]
        if np.any(np.abs(r - 1) > 1e-6):
            rec.violation("phase-error-limit", "Hxy_rad_error/Hxy_mag_error does not tend to 1 as "
                                               "coherence tends to 1")


def _formulas_only(res, rec, tag):
    """c10_formulas without the plan-consistency clause (synthetic states have a fake D)."""
    D = res._data.get("D") if hasattr(res, "_data") else None
    saved = None
    try:
        resultcheck.c10_formulas(_NoPlan(res), rec, tag)
    finally:
        del saved, D


class _NoPlan:
    """View of a result whose K/D are replaced so that only formula clauses are evaluated."""

    def __init__(self, res):
        object.__setattr__(self, "_r", res)

    def __getattr__(self, name):
        r = object.__getattribute__(self, "_r")
        if name == "K":
            return np.asarray(r.navg)
        if name == "D":
            return [np.zeros(int(k), dtype=np.int8) if k < 100 else _Len(int(k)) for k in r.navg]
        return getattr(r, name)


class _Len:
    def __init__(self, n):
        self.n = n

    def __len__(self):
        return self.n

    def __array__(self, dtype=None, copy=None):
        return np.empty(self.n, dtype=np.int8)


def analysis_case(rec, seedt):
    from speckit.analysis import SpectrumAnalyzer
    rng = gen.rng_for(*seedt)
    desc = api.random_analysis(rng, nmax=6000, allow_band=True)
    desc.update(kind="analysis", seed=list(seedt))
    data = api.build_data(desc, seedt)
    if desc["band"] == "pending":
        desc["band"] = None
    rec.case(desc, nontrivial=True)
    res = api.attempt(rec, lambda: SpectrumAnalyzer(data, desc["fs"],
                                                    **api.analyzer_kwargs(desc)).compute())
    if res is None:
        return
    resultcheck.c10_formulas(res, rec, f"[{desc['sched']}, cross={desc['cross']}] ")
    an = SpectrumAnalyzer(data, desc["fs"], **api.analyzer_kwargs(desc))
    for _ in range(2):
        fq, skw, lab = api.single_bin_request(rng, desc["fs"], desc["N"])
        r1 = api.attempt(rec, lambda: an.compute_single_bin(fq, **skw))
        if r1 is not None:
            rec.distinct("single_bin_forms", lab)
            resultcheck.c10_formulas(r1, rec, f"[single-bin {lab}] ")


def mc_cell(rec, params):
    from speckit.analysis import SpectrumAnalyzer
    g2, n, R, wname = params["g2"], params["n"], params["R"], params["win"]
    seed = params["seed"]
    L = 64
    N = n * L
    sigma = np.sqrt(1.0 / g2 - 1.0)
    desc = {"kind": "mc", "g2": g2, "n": n, "R": R, "win": wname, "seed": [seed, params["shard"]]}
    rec.case(desc, nontrivial=True)
    rng = gen.rng_for(seed, "mc", g2, n, wname)
    win = "hann" if wname == "hann" else (lambda LL: np.ones(LL))
    est = {k: [] for k in ("Gxx", "Gxy", "coh", "H")}
    dev = {k: [] for k in ("Gxx", "Gxy", "coh", "H")}
    fq = 10.0 / L  # bin 10 of 64, fs = 1
    for _ in range(R):
        x = rng.standard_normal(N)
        y = x + sigma * rng.standard_normal(N)
        r = SpectrumAnalyzer(np.vstack([x, y]), 1.0, olap=0.0, win=win, order=-1,
                             backend="numba").compute_single_bin(fq, L=L)
        if int(r.K[0]) != n:
            rec.violation("mc-setup", f"expected {n} non-overlapping segments, got {int(r.K[0])}")
            return
        est["Gxx"].append(float(r.Gxx[0])); dev["Gxx"].append(float(r.Gxx_dev[0]))
        est["Gxy"].append(complex(r.Gxy[0])); dev["Gxy"].append(float(r.Gxy_dev[0]))
        est["coh"].append(float(r.coh[0])); dev["coh"].append(float(r.coh_dev[0]))
        est["H"].append(abs(complex(r.Hxy[0]))); dev["H"].append(float(r.Hxy_dev[0]))
    rec.count("mc_cells")
    bands = {"Gxx": (0.85, 1.15), "Gxy": (0.85, 1.15), "coh": (0.78, 1.25), "H": (0.78, 1.25)}
    for k in est:
        v = np.asarray(est[k])
        spread = float(np.sqrt(np.mean(np.abs(v - np.mean(v)) ** 2)))
        ratio = spread / float(np.mean(dev[k]))
        lo, hi = bands[k]
        mid, half = 0.5 * (lo + hi), 0.5 * (hi - lo)
        rec.ratio(f"mc_ratio_offset_over_halfband[{k}]", abs(ratio - mid) / half)
        rec.note(f"MC g2={g2} n={n} win={wname} R={R}: observed/predicted[{k}]={ratio:.3f}")
        if not (lo <= ratio <= hi):
            rec.violation(f"mc-spread:{k}",
                          f"true coherence {g2}, n={n}, window {wname}, R={R}: observed spread / "
                          f"mean reported {k} deviation = {ratio:.3f} outside [{lo},{hi}]")


def run_shard(params, rec):
    if params.get("kind") == "repo-tests":
        # thorough tier: the repository's own tests as a workload, every result they produce
        # checked by this property's result-level monitor (speckit_verif.pytest_plugin)
        return planwork.run_repo_tests(ID, rec, tests=planwork.RESULT_TESTS)
    if params["kind"] == "mc":
        return mc_cell(rec, params)
    t0 = time.time()
    for i in range(params["n_syn"]):
        synthetic_case(rec, [params["seed"], params["shard"], "syn", i])
    for i in range(params["n_ana"]):
        if time.time() - t0 > params["budget_s"]:
            rec.note(f"time budget reached after {i}")
            break
        analysis_case(rec, [params["seed"], params["shard"], "ana", i])


def replay(case, rec):
    k = case["kind"]
    if k == "synthetic":
        synthetic_case(rec, case["seed"])
    elif k == "analysis":
        analysis_case(rec, case["seed"])
    elif k == "mc":
        mc_cell(rec, {"g2": case["g2"], "n": case["n"], "R": case["R"], "win": case["win"],
                      "seed": case["seed"][0], "shard": case["seed"][1]})


def shards(tier, seed):
    out = list(_base_shards(tier, seed))
    if tier == "thorough":
        out.append({"name": "repo-tests", "threads": 4, "timeout": 2400,
                    "params": {"kind": "repo-tests"}})
    return out
