"""C15 - optimal multi-input subtraction yields a physical, consistent residual."""
import time

import numpy as np

from .. import api, gen

ID = "C15"
LEVEL = "exploration"
RULE = ("Systems with q in 1..4 inputs {white, coloured, mutually correlated up to 0.9, amplitude "
        "disparities up to 1e5} and output = sum_i gain_i * (delayed 0..7 samples / first-order "
        "all-pass filtered) input_i + noise, N in [2000,10000], all schedulers / orders / windows / "
        "Lmin: on bins averaged over more than q segments the residual ASD from the analytic and "
        "the numeric solver is finite, >= 0 and <= the output's own ASD (from an independent "
        "compute_spectrum with the same options); ~0 (1e-6*asd_y) when the output is an exact "
        "static combination; unchanged (1e-7*asd_y) under permutation, invertible re-mixing "
        "(cond <= 100) and per-input rescaling; analytic = numeric (1e-8*asd_y); for q = 1 all "
        "three functions equal sqrt(Gyy*(1-coherence)) (1e-9*asd_y) for couplings with gain, "
        "phase and delay.  Distinct by case descriptor; non-trivial: >= 5 bins with K > q.")
ASSUMPTIONS = [
    "least-squares identities: residual = S00 - S^H T^-1 S is invariant under x -> M x",
    "tolerances relative to the output ASD at the same bin",
]
DECIDING_COUNTERS = ["systems", "bins_bounds_checked", "collinear_numeric_cases",
                     "inplace_refill_histories", "permutation_pairs",
                     "remix_pairs",
                     "rescale_pairs", "analytic_vs_numeric", "siso_bins", "exact_combination"]
MIN_NONTRIVIAL = {"quick": 30, "thorough": 600}
JOBS = {"quick": 8, "thorough": 16}


def shards(tier, seed):
    if tier == "quick":
        n_sh, n, budget = 8, 14, 50
    else:
        n_sh, n, budget = 16, 400, 500
    return [{"name": f"miso{i}", "threads": 2, "timeout": budget * 4 + 400,
             "params": {"seed": seed, "shard": i, "n": n, "budget_s": budget}}
            for i in range(n_sh)] + [{"name": "corpus", "threads": 2, "timeout": 900,
                                      "params": {"kind": "corpus"}}]


def make_system(rng, q, N, exact=False, disparity=False, correlated=False):
    from scipy.signal import lfilter
    base = rng.standard_normal((q, N))
    kinds = []
    for i in range(q):
        k = str(rng.choice(["white", "ar1", "ma"]))
        kinds.append(k)
        if k == "ar1":
            base[i] = lfilter([1.0], [1.0, -float(rng.uniform(0.3, 0.9))], base[i])
        elif k == "ma":
            base[i] = lfilter([1.0, float(rng.uniform(-0.9, 0.9))], [1.0], base[i])
        base[i] /= np.std(base[i])
    if q > 1 and (rng.random() < 0.6 or correlated):
        rho = float(rng.uniform(0.2, 0.9))
        if correlated:
            # strongly correlated inputs (sensors that mostly see the same disturbance): the
            # input spectral matrix is ill-conditioned (1e3 .. 1e6) but far from singular
            rho = float(rng.choice([0.97, 0.99, 0.997]))
        common = rng.standard_normal(N)
        base = np.sqrt(1 - rho) * base + np.sqrt(rho) * common
    if disparity:
        base = base * (10.0 ** rng.uniform(-2.5, 2.5, size=q))[:, None]
    inputs = [np.ascontiguousarray(b) for b in base]
    y = np.zeros(N)
    coup = []
    for i in range(q):
        g = float(rng.choice([-1, 1])) * 10 ** rng.uniform(-1, 1) / (np.std(inputs[i]) or 1.0)
        if exact:
            y += g * inputs[i]
            coup.append(("static", g))
            continue
        mode = str(rng.choice(["static", "delay", "allpass"]))
        if mode == "delay":
            d = int(rng.integers(1, 8))
            y += g * np.concatenate([np.zeros(d), inputs[i][:-d]])
            coup.append(("delay", d))
        elif mode == "allpass":
            a = float(rng.uniform(-0.8, 0.8))
            y += g * lfilter([a, 1.0], [1.0, a], inputs[i])
            coup.append(("allpass", round(a, 3)))
        else:
            y += g * inputs[i]
            coup.append(("static", round(g, 4)))
    if not exact:
        y += float(rng.uniform(0.05, 1.0)) * np.std(y) * rng.standard_normal(N)
    return inputs, y, kinds, coup


def options(rng, N):
    kw = dict(scheduler=str(rng.choice(gen.SCHEDS)), order=int(rng.choice([-1, 0, 1, 2])),
              Jdes=int(rng.choice([15, 40])), Kdes=int(rng.choice([10, 40])),
              Lmin=int(rng.choice([1, 16, 64])), olap=float(rng.choice([0.5, 0.75])))
    if rng.random() < 0.35:
        kw["backend"] = str(rng.choice(["numpy", "numpy", "auto"]))   # every option is forwarded
    if rng.random() < 0.3:
        kw["verbose"] = True        # logging must not change what is computed
    kw.update(api.win_args({"kind": "hann", "name": "hann"} if rng.random() < 0.5 else
                           {"kind": "kaiser", "psll": float(rng.choice([80, 160, 200]))}))
    return kw


def one_system(rec, seedt, force_correlated=False):
    from speckit import systems, compute_spectrum
    rng = gen.rng_for(*seedt)
    q = int(rng.choice([1, 1, 2, 2, 3, 4]))
    N = int(rng.integers(2000, 10001))
    exact = bool(rng.random() < 0.2)
    disparity = bool(rng.random() < 0.35) and q > 1
    correlated = (not exact) and (not disparity) and q >= 3 and bool(int(seedt[-1]) % 2 == 0)
    if force_correlated:
        q, exact, disparity, correlated = int(rng.choice([3, 4])), False, False, True
    inputs, y, kinds, coup = make_system(rng, q, N, exact, disparity, correlated)
    kw = options(rng, N)
    if force_correlated and int(seedt[-1]) % 2 == 0:
        kw["verbose"] = True
    fs = float(rng.choice([1.0, 100.0]))
    # the same samples in the containers / dtypes callers use: integer-valued data held as int
    # arrays (raw ADC counts), lists, float32
    form = str(rng.choice(["float64", "float64", "int-first-input", "int-all-inputs", "lists",
                           "float32-inputs"]))
    if form in ("int-first-input", "int-all-inputs"):
        scale = [float(200.0 / (np.max(np.abs(v)) or 1.0)) for v in inputs]
        ints = [np.round(v * s_).astype(np.int64) for v, s_ in zip(inputs, scale)]
        if not exact:
            y = y  # the output keeps its fractional values
        which_int = range(q) if form == "int-all-inputs" else [0]
        inputs = [ints[i] if i in which_int else inputs[i] for i in range(q)]
        if exact:
            # rebuild the exact combination from the samples actually passed
            y = sum(float(c_[1]) * np.asarray(v, dtype=float) / 1.0 for c_, v in zip(coup, inputs)) \
                if all(c_[0] == "static" for c_ in coup) else y
    elif form == "lists":
        inputs = [v.tolist() for v in inputs]
    elif form == "float32-inputs":
        inputs = [np.asarray(v, dtype=np.float32) for v in inputs]
        if exact:
            y = sum(float(c_[1]) * np.asarray(v, dtype=np.float64) for c_, v in zip(coup, inputs))
    ref_inputs = [np.asarray(v, dtype=np.float64) for v in inputs]   # same samples as float64
    desc = {"kind": "system", "forced": bool(force_correlated), "form": form, "seed": list(seedt), "q": q, "N": N, "exact": exact,
            "disparity": disparity, "correlated": correlated, "inputs": kinds, "couplings": coup, "sched": kw["scheduler"],
            "order": kw["order"]}
    rec.case(desc, nontrivial=False)
    ry = api.attempt(rec, lambda: compute_spectrum(y, fs, **kw), "output spectrum")
    if ry is None:
        return
    asd_y = np.asarray(ry.asd)
    # bins averaged over more than q segments that carry an estimate at all (L <= order+1
    # leaves an identically-zero detrended segment: pure rounding noise)
    sel = (np.asarray(ry.K) > q) & (np.asarray(ry.L) > kw["order"] + 1) \
        & (asd_y > 1e-12 * float(np.max(asd_y)))
    if sel.sum() >= 5:
        rec.mark_nontrivial(desc)
    if not np.any(sel):
        return
    rec.count("systems")
    tag = f"[q={q}, {kw['scheduler']}, order {kw['order']}, couplings {coup}] "
    use_analytic = q <= 3 or correlated or rng.random() < 0.5
    if correlated:
        rec.count("correlated_input_systems")

    def run(name, fn):
        out = api.attempt(rec, fn, name)
        if out is None:
            return None
        f, asd = out
        if len(f) != len(ry.f) or np.max(np.abs(np.asarray(f) - ry.f)) > 1e-12 * float(ry.f[-1]):
            rec.violation("frequency-grid-mismatch", f"{tag}{name}: grid differs from "
                                                     f"compute_spectrum's with the same options")
            return None
        return np.asarray(asd)

    res = {}
    res["numeric"] = run("MISO_numeric", lambda: systems.MISO_numeric_optimal_spectral_analysis(
        inputs, y, fs, **kw))
    if use_analytic:
        res["analytic"] = run("MISO_analytic", lambda: systems.MISO_analytic_optimal_spectral_analysis(
            inputs, y, fs, **kw))
    if q == 1:
        res["siso"] = run("SISO", lambda: systems.SISO_optimal_spectral_analysis(
            inputs[0], y, fs, **kw))
    for name, asd in res.items():
        if asd is None:
            continue
        a = asd[sel]
        rec.count("bins_bounds_checked", int(sel.sum()))
        if np.any(~np.isfinite(a)) or np.any(a < 0):
            rec.violation(f"residual-not-physical:{name}", f"{tag}{name}: NaN or negative residual")
            continue
        over = a / asd_y[sel]
        rec.ratio("residual_over_output_asd", float(over.max()))
        if np.any(over > 1 + 1e-9):
            j = int(np.nonzero(sel)[0][int(np.argmax(over))])
            rec.violation(f"residual-exceeds-output:{name}",
                          f"{tag}{name}: residual {asd[j]!r} > output ASD {asd_y[j]!r} at "
                          f"f={ry.f[j]:.5g} (K={int(ry.K[j])})")
        if exact:
            rec.count("exact_combination")
            rec.ratio("exact_residual_over_1e-6", float(over.max()) / 1e-6)
            if np.any(over > 1e-6):
                j = int(np.nonzero(sel)[0][int(np.argmax(over))])
                rec.violation(f"exact-combination-residual:{name}",
                              f"{tag}{name}: output is an exact static combination but residual/"
                              f"output = {over.max():.3e} at f={ry.f[j]:.5g}")
    if form != "float64":
        rf = run("MISO_numeric(float64 copy of the same samples)",
                 lambda: systems.MISO_numeric_optimal_spectral_analysis(ref_inputs, np.asarray(y, dtype=float), fs, **kw))
        if rf is not None and res.get("numeric") is not None:
            rec.count("container_dtype_pairs")
            d = np.abs(rf - res["numeric"])[sel] / asd_y[sel]
            tolc = 1e-6 if exact else 1e-8
            rec.ratio("container_dtype_err_over_tol", float(d.max()) / tolc)
            if d.max() > tolc:
                rec.violation("result-depends-on-container-dtype",
                              f"{tag}numeric solver: the same samples passed as {form} and as "
                              f"float64 arrays give residuals differing by {d.max():.3e} x asd_y")
    if res.get("numeric") is not None and res.get("analytic") is not None:
        rec.count("analytic_vs_numeric")
        d = np.abs(res["numeric"] - res["analytic"])[sel] / asd_y[sel]
        tol = 1e-6 if exact else (1e-7 if disparity else 1e-8)
        rec.ratio("analytic_vs_numeric_over_tol", float(d.max()) / tol)
        if d.max() > tol:
            rec.violation("analytic-vs-numeric", f"{tag}solvers differ by {d.max():.3e} x asd_y")
    if q == 1:
        rc = api.attempt(rec, lambda: compute_spectrum(np.vstack([inputs[0], y]), fs, **kw))
        if rc is not None:
            exp = np.sqrt(np.maximum(np.asarray(rc.Gyy) * (1 - np.asarray(rc.coh)), 0.0))
            for name, asd in res.items():
                if asd is None:
                    continue
                rec.count("siso_bins", int(sel.sum()))
                d = np.abs(asd - exp)[sel] / asd_y[sel]
                # sqrt amplifies rounding of a nearly vanishing residual power
                tol = 1e-9 if not exact else 1e-6
                rec.ratio("siso_err_over_tol", float(d.max()) / tol)
                if d.max() > tol:
                    j = int(np.nonzero(sel)[0][int(np.argmax(d))])
                    rec.violation(f"siso-closed-form:{name}",
                                  f"{tag}{name}: residual {asd[j]!r} != sqrt(Gyy*(1-coh)) = "
                                  f"{exp[j]!r} at f={ry.f[j]:.5g} (coh={rc.coh[j]:.4f})")
    # History: the caller's buffers are refilled in place with a different system and analysed
    # again; the result must be that of the current contents (compared with fresh copies).
    if form == "float64" and rng.random() < 0.5 and not force_correlated:
        in2, y2, _, _ = make_system(rng, q, N, exact, disparity)
        for dst, src in zip(inputs, in2):
            dst[:] = src
        ybuf = np.ascontiguousarray(y)
        fn = systems.MISO_analytic_optimal_spectral_analysis if (use_analytic and q <= 3) \
            else systems.MISO_numeric_optimal_spectral_analysis
        first = api.attempt(rec, lambda: fn(inputs, ybuf, fs, **kw), "first call on the buffers")
        ybuf[:] = y2
        again = api.attempt(rec, lambda: fn(inputs, ybuf, fs, **kw), "call after in-place refill")
        fresh = api.attempt(rec, lambda: fn([v.copy() for v in inputs], ybuf.copy(), fs, **kw),
                            "call on fresh copies")
        if again is not None and fresh is not None:
            rec.count("inplace_refill_histories")
            ry2 = compute_spectrum(ybuf.copy(), fs, **kw)
            a2 = np.asarray(ry2.asd)
            s2 = (np.asarray(ry2.K) > q) & (np.asarray(ry2.L) > kw["order"] + 1) & (a2 > 1e-12 * a2.max())
            if np.any(s2):
                d = np.abs(np.asarray(again[1]) - np.asarray(fresh[1]))[s2] / a2[s2]
                if d.max() > 1e-9:
                    rec.violation("stale-after-inplace-refill",
                                  f"{tag}{fn.__name__}: result for buffers refilled in place differs "
                                  f"from the result for fresh copies of the same samples by "
                                  f"{d.max():.3e} x asd_y")
        return
    base = res.get("numeric")
    solver = systems.MISO_numeric_optimal_spectral_analysis
    sname = "numeric"
    if use_analytic and (correlated or rng.random() < 0.4) and res.get("analytic") is not None:
        base, solver, sname = res["analytic"], systems.MISO_analytic_optimal_spectral_analysis, "analytic"
    if base is None or q == 1 or exact:
        # for an exact combination both residuals are rounding noise (each already asserted to be
        # <= 1e-6 asd_y above); comparing two noise values with each other asserts nothing
        return
    tol = 1e-7
    # permutation
    perm = rng.permutation(q)
    rp = run("permuted", lambda: solver([inputs[i] for i in perm], y, fs, **kw))
    if rp is not None:
        rec.count("permutation_pairs")
        d = np.abs(rp - base)[sel] / asd_y[sel]
        rec.ratio("permutation_err_over_tol", float(d.max()) / tol)
        if d.max() > tol:
            rec.violation(f"not-permutation-invariant:{sname}",
                          f"{tag}{sname}: residual changes by {d.max():.3e} x asd_y when the inputs "
                          f"are reordered {perm.tolist()}")
    # invertible re-mixing with cond <= 100
    for _ in range(20):
        M = rng.standard_normal((q, q))
        if np.linalg.cond(M) <= 100:
            break
    else:
        M = np.eye(q) + 0.1 * rng.standard_normal((q, q))
    X = np.vstack([np.asarray(v, dtype=np.float64) for v in inputs])
    mixed = [np.ascontiguousarray(r) for r in (M @ X)]
    rm = run("re-mixed", lambda: solver(mixed, y, fs, **kw))
    if rm is not None and not disparity:
        rec.count("remix_pairs")
        d = np.abs(rm - base)[sel] / asd_y[sel]
        rec.ratio("remix_err_over_tol", float(d.max()) / tol)
        if d.max() > tol:
            rec.violation(f"not-remix-invariant:{sname}",
                          f"{tag}{sname}: residual changes by {d.max():.3e} x asd_y under an "
                          f"invertible re-mixing (cond {np.linalg.cond(M):.1f})")
    # per-input rescaling (diagonal re-mixing, amplitude disparity up to 1e4)
    # amplitude ratios up to 1e5: the input spectral matrix then has a condition number up to
    # ~1e10 x that of the unscaled inputs, still comfortably solvable in float64 (the residual is
    # stationary in H, so the solve error enters to second order); beyond ~1e6 in amplitude the
    # matrix is numerically singular and no float64 solver can be invariant.
    sc = 10.0 ** rng.uniform(-2.5, 2.5, size=q)
    scaled = [np.ascontiguousarray(s * np.asarray(v, dtype=np.float64)) for s, v in zip(sc, inputs)]
    rs = None if disparity else run("re-scaled", lambda: solver(scaled, y, fs, **kw))
    if rs is not None:
        rec.count("rescale_pairs")
        d = np.abs(rs - base)[sel] / asd_y[sel]
        tol_s = 1e-7 if not exact else 1e-5
        rec.ratio("rescale_err_over_tol", float(d.max()) / tol_s)
        if d.max() > tol_s:
            rec.violation(f"not-rescale-invariant:{sname}",
                          f"{tag}{sname}: residual changes by {d.max():.3e} x asd_y when the inputs "
                          f"are rescaled by {np.array2string(sc, precision=2)}")


    # the whole measurement in other units: inputs 2^a and output 2^b times larger or smaller
    # (exact rescalings): the residual must be exactly 2^b times the base residual
    ea, eb = int(rng.choice([-150, -60, -20, 20, 60])), int(rng.choice([-150, -60, -20, 20, 100]))
    unit_in = [np.ascontiguousarray(np.asarray(v, dtype=np.float64) * 2.0 ** ea) for v in inputs]
    ru = run("other units", lambda: solver(unit_in, np.asarray(y, dtype=np.float64) * 2.0 ** eb,
                                           fs, **kw))
    if ru is not None:
        rec.count("unit_change_pairs")
        d = np.abs(ru / 2.0 ** eb - base)[sel] / asd_y[sel]
        rec.ratio("unit_change_err_over_1e-9", float(d.max()) / 1e-9)
        if not (d.max() <= 1e-9):
            rec.violation(f"result-depends-on-units:{sname}",
                          f"{tag}{sname}: inputs x 2^{ea}, output x 2^{eb}: residual / 2^{eb} differs "
                          f"from the base residual by {d.max():.3e} x asd_y")


def bias_case(rec, seedt):
    """Without detrending (order -1) a constant record is a legitimate input: its windowed
    segments are identical and non-zero, and an output that contains that constant plus a static
    combination of the other inputs is an EXACT linear combination of all inputs - the residual
    must vanish to rounding, from both solvers."""
    from speckit import systems, compute_spectrum
    rng = gen.rng_for(*seedt)
    q0 = int(rng.choice([1, 2, 3]))
    N = int(rng.integers(2000, 8000))
    xs = [gen.record(rng, N, str(rng.choice(["white", "ar1"]))) for _ in range(q0)]
    B = float(rng.choice([1.0, 50.0, 1e-3, -7.0]))
    bias = np.full(N, B)
    coef = rng.uniform(0.3, 2.0, size=q0 + 1) * rng.choice([-1, 1], size=q0 + 1)
    y = coef[0] * bias + sum(c * x for c, x in zip(coef[1:], xs))
    pos = int(rng.integers(0, q0 + 1))
    inputs = xs[:pos] + [bias] + xs[pos:]
    kw = options(rng, N)
    kw["order"] = -1
    fs = float(rng.choice([1.0, 100.0]))
    desc = {"kind": "bias-input", "seed": list(seedt), "q": q0 + 1, "N": N, "B": B, "pos": pos,
            "sched": kw["scheduler"]}
    rec.case(desc, nontrivial=True)
    ry = api.attempt(rec, lambda: compute_spectrum(y, fs, **kw), "output spectrum")
    if ry is None:
        return
    asd_y = np.asarray(ry.asd)
    sel = (np.asarray(ry.K) > q0 + 1) & (asd_y > 1e-12 * float(np.max(asd_y)))
    if not np.any(sel):
        return
    rec.count("constant_input_systems")
    for name, fn in (("numeric", systems.MISO_numeric_optimal_spectral_analysis),
                     ("analytic", systems.MISO_analytic_optimal_spectral_analysis)):
        out = api.attempt(rec, lambda: fn(inputs, y, fs, **kw), f"MISO_{name} with a constant input")
        if out is None:
            continue
        with np.errstate(all="ignore"):
            r = np.asarray(out[1])[sel] / asd_y[sel]
        worst = float(np.max(np.where(np.isfinite(r), r, np.inf)))
        rec.ratio("constant_input_residual_over_1e-6", worst / 1e-6)
        if not (worst <= 1e-6):
            rec.violation(f"exact-combination-residual:{name}",
                          f"[q={q0 + 1}, order -1, {kw['scheduler']}] {name}: the output is "
                          f"{coef[0]:.3g} x a constant input ({B}) plus a static combination of the "
                          f"other inputs, but residual/output = {worst:.3e}")


def collinear_case(rec, seedt):
    """Exactly collinear inputs (a duplicated input, or one input that is a linear combination of
    the others): the input spectral matrix is singular.  The numeric solver must still return a
    physical residual equal to the one obtained without the redundant input.  The analytic
    (closed-form) solver divides by a vanishing determinant - recorded as a known finding and
    classified by mechanism (condition number of the inputs' covariance)."""
    from speckit import systems, compute_spectrum
    rng = gen.rng_for(*seedt)
    q0 = int(rng.choice([1, 2, 3]))
    N = int(rng.integers(2000, 6000))
    inputs, y, kinds, coup = make_system(rng, q0, N, exact=False, disparity=False)
    how = str(rng.choice(["duplicate", "combination"])) if q0 >= 2 else "duplicate"
    if how == "duplicate":
        extra = inputs[int(rng.integers(0, q0))].copy()
    else:
        extra = sum(float(c) * v for c, v in zip(rng.uniform(-2, 2, size=q0), inputs))
    pos = int(rng.integers(0, q0 + 1))
    full = inputs[:pos] + [np.ascontiguousarray(extra)] + inputs[pos:]
    kw = options(rng, N)
    fs = 1.0
    cond = float(np.linalg.cond(np.cov(np.vstack(full))))
    desc = {"kind": "collinear", "seed": list(seedt), "q": q0 + 1, "how": how, "N": N,
            "sched": kw["scheduler"], "order": kw["order"], "cov_cond": cond}
    rec.case(desc, nontrivial=True)
    ry = api.attempt(rec, lambda: compute_spectrum(y, fs, **kw), "output spectrum")
    if ry is None:
        return
    asd_y = np.asarray(ry.asd)
    sel = (np.asarray(ry.K) > q0 + 1) & (np.asarray(ry.L) > kw["order"] + 1) \
        & (asd_y > 1e-12 * float(np.max(asd_y)))
    if not np.any(sel):
        return
    tag = f"[collinear inputs ({how}), q={q0 + 1}, {kw['scheduler']}, order {kw['order']}] "
    out = api.attempt(rec, lambda: systems.MISO_numeric_optimal_spectral_analysis(full, y, fs, **kw),
                      "MISO_numeric with collinear inputs")
    ref = api.attempt(rec, lambda: systems.MISO_numeric_optimal_spectral_analysis(inputs, y, fs, **kw),
                      "MISO_numeric without the redundant input")
    if out is not None and ref is not None:
        rec.count("collinear_numeric_cases")
        rn, r0 = np.asarray(out[1]), np.asarray(ref[1])
        if np.any(~np.isfinite(rn[sel])) or np.any(rn[sel] < 0) \
                or np.any(rn[sel] > asd_y[sel] * (1 + 1e-9)):
            rec.violation("residual-not-physical:numeric", f"{tag}numeric residual outside "
                                                           f"[0, asd_y] or not finite")
        d = np.abs(rn - r0)[sel] / asd_y[sel]
        rec.ratio("collinear_numeric_err_over_1e-6", float(d.max()) / 1e-6)
        if d.max() > 1e-6:
            rec.violation("numeric-singular-inputs",
                          f"{tag}numeric residual differs by {d.max():.3e} x asd_y from the "
                          f"residual without the redundant input")
    outa = api.attempt(rec, lambda: systems.MISO_analytic_optimal_spectral_analysis(full, y, fs, **kw),
                       "MISO_analytic with collinear inputs") if q0 + 1 <= 3 else None
    if outa is not None and out is not None:
        rec.count("collinear_analytic_cases")
        ra = np.asarray(outa[1])
        bad = np.any(~np.isfinite(ra[sel])) or np.any(ra[sel] > asd_y[sel] * (1 + 1e-9)) \
            or np.max(np.abs(ra - np.asarray(out[1]))[sel] / asd_y[sel]) > 1e-6
        if bad:
            key = "analytic-singular-input-matrix" if cond > 1e12 else "analytic-vs-numeric"
            with np.errstate(all="ignore"):
                worst = float(np.nanmax(ra[sel] / asd_y[sel]))
            rec.violation(key, f"{tag}analytic residual reaches {worst:.3e} x asd_y / differs from "
                               f"the numeric solver (covariance condition number {cond:.2e})")


def run_shard(params, rec):
    if params.get("kind") == "corpus":
        collinear_case(rec, [0, "corpus", 0])
        rec.count("corpus_replayed")
        return
    for i in range(max(1, params["n"] // 5)):
        collinear_case(rec, [params["seed"], params["shard"], "col", i])
    for i in range(max(4, params["n"] // 3)):
        one_system(rec, [params["seed"], params["shard"], "corr", i], force_correlated=True)
    for i in range(max(2, params["n"] // 5)):
        bias_case(rec, [params["seed"], params["shard"], "bias", i])
    t0 = time.time()
    for i in range(params["n"]):
        if time.time() - t0 > params["budget_s"]:
            rec.note(f"time budget reached after {i}")
            break
        one_system(rec, [params["seed"], params["shard"], i])


def replay(case, rec):
    if case.get("kind") == "collinear":
        return collinear_case(rec, case["seed"])
    if case.get("kind") == "bias-input":
        return bias_case(rec, case["seed"])
    one_system(rec, case["seed"], force_correlated=bool(case.get("forced")))
