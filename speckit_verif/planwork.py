"""Shared plan workload for C02 (safety), C03 (grid) and C04 (spacing / averaging).

One generator, three oracles: each property's check runs the same kinds of cases and applies
its own oracle from refmodel to every plan observed - the ones returned to the caller and,
through the scheduler probe, the ones built inside SpectrumAnalyzer.plan() and inside the
Jdes search.
"""
import os
import time

import numpy as np

from . import gen, refmodel
from .probes import SchedulerProbe

ORACLES = {
    "C02": lambda plan, cfg, sched, rec: refmodel.plan_safety(plan, cfg, sched),
    "C03": lambda plan, cfg, sched, rec: refmodel.plan_grid(plan, cfg, sched, rec.ratio),
    "C04": lambda plan, cfg, sched, rec: refmodel.plan_spacing(plan, cfg, sched, rec.ratio,
                                                               rec.count),
}


def nontrivial_plan(plan):
    try:
        K = np.asarray(plan["K"])
        return len(plan["f"]) >= 3 and bool(np.any(K >= 2))
    except Exception:
        return False


def call_scheduler(sched, cfg):
    import speckit.schedulers as S
    kw = gen.sched_kwargs(cfg)
    form = cfg.get("fs_form")
    if form == "np.float32" and float(np.float32(kw["fs"])) == kw["fs"]:
        kw["fs"] = np.float32(kw["fs"])      # exactly representable: same value, other dtype
    elif form == "np.float64":
        kw["fs"] = np.float64(kw["fs"])
    elif form == "int" and float(int(kw["fs"])) == kw["fs"]:
        kw["fs"] = int(kw["fs"])
    if form and cfg.get("N_form") == "np.int64":
        kw["N"] = np.int64(kw["N"])
    return getattr(S, gen.SCHED_FUNC[sched])(**kw)


def check_plan(pid, plan, cfg, sched, rec, where):
    rec.count("plans_checked")
    rec.count(f"plans_checked[{sched}]")
    try:
        probs = ORACLES[pid](plan, cfg, sched, rec)
    except Exception as e:
        rec.violation("malformed-plan", f"{where}: oracle could not read the plan: {e!r}")
        return False
    for key, msg in probs:
        rec.violation(f"{key}", f"{sched} ({where}): {msg}", detail={"cfg": cfg})
    return not probs


def run_direct(pid, rec, cfg, sched):
    desc = {"kind": "direct", "sched": sched, "cfg": cfg}
    rec.case(desc, nontrivial=False)
    try:
        plan = call_scheduler(sched, cfg)
    except BaseException as e:  # includes SystemExit from ltf_plan on an empty plan
        if pid == "C02":
            rec.violation("scheduler-raises", f"{sched}: {type(e).__name__}: {e}")
        else:
            rec.blocked(f"scheduler raised {type(e).__name__} (C02)")
        return None
    if nontrivial_plan(plan):
        rec.mark_nontrivial(desc)
    rec.distinct("plan_shapes", f"{sched}:{len(plan['f'])}:{int(np.max(plan['K']))}")
    check_plan(pid, plan, cfg, sched, rec, "direct call")
    return plan


def run_after_consumer(pid, rec, cfg, sched, how):
    """History: a plan is built, a consumer narrows it (SpectrumAnalyzer with band=, which filters
    the plan it was handed; or a caller who cuts the returned dict down), then the same
    configuration is requested again.  The second plan is judged by the oracle like any other."""
    from speckit.analysis import SpectrumAnalyzer
    desc = {"kind": "after-consumer", "sched": sched, "cfg": cfg, "how": how}
    rec.case(desc, nontrivial=False)
    try:
        first = call_scheduler(sched, cfg)
        f = np.asarray(first["f"], dtype=float)
        if len(f) < 4:
            return None
        if how == "band-analyzer":
            lo, hi = float(f[len(f) // 3]), float(f[(2 * len(f)) // 3])
            kw = analyzer_kwargs(cfg, sched)
            SpectrumAnalyzer(np.zeros(int(cfg["N"])), float(cfg["fs"]), band=(lo, hi), **kw).plan()
        else:
            h = max(1, len(f) // 2)
            for k in list(first.keys()):
                v = first[k]
                if hasattr(v, "__len__") and not isinstance(v, (str, bytes)) and len(v) == len(f):
                    first[k] = v[:h]
            if "nf" in first:
                first["nf"] = h
        plan = call_scheduler(sched, cfg)
    except BaseException as e:   # noqa: BLE001
        rec.blocked(f"history raised {type(e).__name__} (C02 / C05)")
        return None
    rec.count("plans_after_a_consumer_narrowed_the_previous_one")
    if nontrivial_plan(plan):
        rec.mark_nontrivial(desc)
    check_plan(pid, plan, cfg, sched, rec, f"direct call after {how}")
    return plan


def analyzer_kwargs(cfg, sched, extra=None):
    kw = dict(olap=cfg["olap"], bmin=cfg["bmin"], Lmin=cfg["Lmin"], Jdes=cfg["Jdes"],
              Kdes=cfg["Kdes"], scheduler=sched)
    if extra:
        kw.update(extra)
    if kw.pop("scheduler_as_callable", False):
        # the documented alternative to the name: the scheduler function itself, looked up the
        # way a user would (current binding of speckit.schedulers.<name>)
        import speckit.schedulers as S
        kw["scheduler"] = getattr(S, gen.SCHED_FUNC[sched])
    return kw


def run_analyzer(pid, rec, cfg, sched, extra=None):
    """Build the plan through SpectrumAnalyzer.plan(); every scheduler call it makes is
    observed by the probe and checked with the configuration it was called with."""
    from speckit.analysis import SpectrumAnalyzer
    desc = {"kind": "analyzer", "sched": sched, "cfg": cfg, "extra": extra}
    rec.case(desc, nontrivial=False)
    events = []

    def cb(name, args, out, depth):
        events.append((name, args, out, depth))

    probe = SchedulerProbe(cb).install()
    try:
        try:
            an = SpectrumAnalyzer(np.zeros(int(cfg["N"])), float(cfg["fs"]),
                                  **analyzer_kwargs(cfg, sched, extra))
            cfg_eff = dict(cfg)
            cfg_eff["olap"] = float(an.config["final_olap"])
            plan = an.plan()
        except RuntimeError as e:
            if extra and extra.get("force_target_nf") and "forced number" in str(e):
                rec.count("forced_plan_unreachable")  # an error is an admissible outcome (C04)
                return None
            if pid == "C02":
                rec.violation("analyzer-plan-raises", f"RuntimeError: {e}")
            else:
                rec.blocked("analyzer.plan() raised RuntimeError (C02)")
            return None
        except BaseException as e:
            if pid == "C02":
                rec.violation("analyzer-plan-raises",
                              f"SpectrumAnalyzer(...).plan() with scheduler={sched}: "
                              f"{type(e).__name__}: {e}")
            else:
                rec.blocked(f"analyzer.plan() raised {type(e).__name__} (C02)")
            return None
    finally:
        probe.uninstall()
    rec.count("probe_plan_events", len(events))
    inv = {v: k for k, v in gen.SCHED_FUNC.items()}
    for name, args, out, depth in events:
        s = inv.get(name)
        if s is None:
            continue
        c = dict(cfg_eff)
        for k in ("N", "fs", "olap", "bmin", "Lmin", "Jdes", "Kdes"):
            if k in args:
                c[k] = args[k]
        if name == "ltf_plan" and sched == "lpsd":
            s = "ltf"  # nested call made by lpsd_plan with bmin=1, Lmin=1 already forwarded
        try:
            check_plan(pid, out, c, s, rec, f"probe:{name}")
        except Exception as e:
            rec.note(f"probe oracle error {e!r}")
    if nontrivial_plan(plan):
        rec.mark_nontrivial(desc)
    cfg_final = dict(cfg_eff)
    cfg_final["Jdes"] = int(an.config["Jdes"])
    check_plan(pid, plan, cfg_final, sched, rec, "analyzer.plan()")
    if pid == "C02":
        # the analyzer's normalised plan must still describe the same segmentation
        if int(plan["nf"]) != len(plan["f"]):
            rec.violation("plan-nf-field", f"analyzer plan nf={plan['nf']} != len(f)")
    return plan


def run_mixed_shard(pid, params, rec, extra_kinds=None):
    """params: seed, shard, n, nmax, budget_s."""
    seed, shard = params["seed"], params["shard"]
    n, nmax = params["n"], params["nmax"]
    budget = params.get("budget_s", 1e9)
    t0 = time.time()
    prev = None
    for i in range(n):
        if time.time() - t0 > budget:
            rec.note(f"time budget reached after {i} configurations")
            break
        rng = gen.rng_for(seed, "plan", shard, i)
        cfg = gen.plan_config(rng, nmax)
        if i % 5 == 4 and prev is not None:
            # call history: the previous configuration with ONE parameter changed (same N), so
            # that anything remembered from the earlier call under an incomplete key is exposed
            cfg = dict(prev)
            which = str(rng.choice(["olap", "Kdes", "Jdes", "Lmin", "bmin", "fs"]))
            alt = gen.plan_config(rng, nmax)
            if which == "Lmin":
                cfg["Lmin"] = int(min(max(1, alt["Lmin"]), cfg["N"]))
            elif which == "bmin":
                cfg["bmin"] = float(alt["bmin"]) if alt["bmin"] < cfg["N"] / 2 else 1.0
            else:
                cfg[which] = alt[which]
            cfg["klass"] = f"vary-{which}"
        prev = dict(cfg)
        cfg["case_seed"] = [seed, shard, i]
        for sched in gen.SCHEDS:
            run_direct(pid, rec, cfg, sched)
        if i % 4 == 0:
            sched = gen.SCHEDS[(i // 4) % 4]
            extra = None
            if i % 8 == 4:
                # window-derived default overlap (Kaiser psll -> kaiser_rov, Hann -> 0.5)
                extra = {"olap": "default"}
                if rng.random() < 0.7:
                    extra.update(win="kaiser", psll=float(rng.choice([40, 60, 100, 150, 200])))
                else:
                    extra.update(win="hann")
            elif i % 32 == 8 and cfg["N"] <= 4000:
                # forced bin count: the probe sees every intermediate plan of the Jdes search
                # (not with the vectorised scheduler: its 10*Jdes-point lookup grid makes every
                # search step cost ~0.3 s; C04's own forced-count shards cover it)
                extra = {"force_target_nf": True}
                cfg = dict(cfg, Jdes=int(rng.choice([20, 60, 150])))
                if sched == "vectorized_ltf":
                    sched = "new_ltf"
            if extra is None and i % 8 == 0:
                extra = {"scheduler_as_callable": True}
            if rng.random() < 0.3:
                extra = dict(extra or {}, verbose=True)     # progress logging must never fail
            run_analyzer(pid, rec, cfg, sched, extra)
        if i % 6 == 1 and "fs_form" not in cfg:
            run_after_consumer(pid, rec, cfg, gen.SCHEDS[(i // 6) % 4],
                               "band-analyzer" if (i // 24) % 2 == 0 else "dict-cut")
        if extra_kinds:
            extra_kinds(rec, cfg, rng, i)


def replay_case(pid, case, rec, extra=None):
    kind = case.get("kind")
    if kind == "direct":
        run_direct(pid, rec, case["cfg"], case["sched"])
    elif kind == "analyzer":
        run_analyzer(pid, rec, case["cfg"], case["sched"], case.get("extra"))
    elif kind == "after-consumer":
        run_after_consumer(pid, rec, case["cfg"], case["sched"], case["how"])
    elif extra is not None:
        extra(case, rec)
    else:
        raise ValueError(f"unknown case kind {kind}")


RESULT_TESTS = ("tests/integration/test_analysis_api.py", "tests/integration/test_accuracy.py",
                "tests/unit/test_systems.py", "tests/integration/test_errors.py")


def run_repo_tests(pid, rec, tests=("tests/unit/test_schedulers.py", "tests/integration/test_analysis_api.py",
                                    "tests/unit/test_utils.py")):
    """Thorough tier: the repository's own tests as an extra workload, with the monitors on
    (speckit_verif.pytest_plugin).  Only this property's oracle findings are reported."""
    import json
    import subprocess
    import sys
    import tempfile
    repo = os.environ.get("SPECKIT_VERIF_REPO", "/repo")
    verif = os.path.dirname(os.path.dirname(os.path.abspath(__file__)))
    out = tempfile.mktemp(suffix=".json")
    env = dict(os.environ, PYTHONPATH=verif + os.pathsep + repo, SPECKIT_VERIF_PLUGIN_OUT=out)
    desc = {"kind": "repo-tests", "tests": list(tests)}
    rec.case(desc, nontrivial=True)
    try:
        subprocess.run([sys.executable, "-m", "pytest", "-q", "-x", "-p", "no:cacheprovider",
                        "-p", "speckit_verif.pytest_plugin", "--timeout=900"] + list(tests),
                       cwd=repo, env=env, timeout=2200, stdout=subprocess.DEVNULL,
                       stderr=subprocess.DEVNULL)
        data = json.load(open(out))
    except Exception as e:
        rec.note(f"repo-tests workload not available: {e!r}")
        return
    finally:
        try:
            os.remove(out)
        except OSError:
            pass
    rec.count("repo_test_plans_observed", data["plans"])
    rec.count("repo_test_kernel_calls_checked", data["kernel_checked"])
    rec.count("repo_test_results_checked", data.get("results_checked", 0))
    rec.note(f"repository tests under monitors: {data['plans']} plans, {data['kernel_checked']} of "
             f"{data['kernel_calls']} kernel calls checked, {data.get('results_checked', 0)} of "
             f"{data.get('results', 0)} results checked, pytest exit {data['pytest_exitstatus']}")
    for v in data["violations"]:
        if v["kind"] == pid:
            rec.violation(v["key"], "during the repository's own tests: " + v["msg"])


def run_threaded_shard(pid, params, rec):
    """Schedule stress for the (pure-Python) schedulers: several Python threads build plans for
    DIFFERENT configurations at the same time (tiny switch interval), every plan is checked by the
    property's oracle with the configuration its own thread asked for."""
    import sys
    import threading
    seed, nthreads, per = params["seed"], params.get("nthreads", 4), params.get("per_thread", 40)
    old = sys.getswitchinterval()
    sys.setswitchinterval(1e-5)
    results = [[] for _ in range(nthreads)]

    def work(t):
        rng = gen.rng_for(seed, "threaded", t)
        for i in range(per):
            cfg = gen.plan_config(rng, 4000)
            sched = gen.SCHEDS[(t + i) % 4]
            try:
                results[t].append((cfg, sched, call_scheduler(sched, cfg), None))
            except BaseException as e:   # noqa: BLE001
                results[t].append((cfg, sched, None, e))
    try:
        ths = [threading.Thread(target=work, args=(t,)) for t in range(nthreads)]
        for th in ths:
            th.start()
        for th in ths:
            th.join()
    finally:
        sys.setswitchinterval(old)
    for t in range(nthreads):
        for cfg, sched, plan, err in results[t]:
            desc = {"kind": "threaded", "thread": t, "sched": sched, "cfg": cfg}
            rec.case(desc, nontrivial=plan is not None and nontrivial_plan(plan))
            rec.count("plans_built_concurrently")
            if err is not None:
                if pid == "C02":
                    rec.violation("scheduler-raises", f"{sched} (concurrent): {type(err).__name__}: {err}")
                continue
            check_plan(pid, plan, cfg, sched, rec, f"built concurrently with {nthreads - 1} other plans")
