"""Monitor installation by attribute rebinding (no source edit in the repository).

Probes only add observation: each wrapper calls the original and passes its result through
unchanged.  They depend on private names, so they are never the only deciding step; when a
name is missing the probe simply is not installed and the count of its events stays 0.
"""
import functools

SCHED_NAMES = ["lpsd_plan", "ltf_plan", "vectorized_ltf_plan", "new_ltf_plan"]
KERNEL_NAMES = [
    "_stats_win_only_auto", "_stats_win_only_csd", "_stats_detrend0_auto",
    "_stats_detrend0_csd", "_stats_poly_auto", "_stats_poly_csd",
    "_stats_win_only_auto_np", "_stats_win_only_csd_np", "_stats_detrend0_auto_np",
    "_stats_detrend0_csd_np", "_stats_poly_auto_np", "_stats_poly_csd_np",
    "_stats_win_only_auto_cuda", "_stats_win_only_csd_cuda", "_stats_detrend0_auto_cuda",
    "_stats_detrend0_csd_cuda", "_stats_poly_auto_cuda", "_stats_poly_csd_cuda",
]


class SchedulerProbe:
    """Records every plan any scheduler returns (also the nested / search-internal ones)."""

    def __init__(self, callback):
        self.callback = callback
        self.depth = 0
        self.installed = []
        self.originals = {}

    def install(self):
        import speckit.schedulers as S
        import speckit.analysis as A
        for name in SCHED_NAMES:
            orig = getattr(S, name, None)
            if orig is None or getattr(orig, "_verif_probe", False):
                continue
            wrapper = self._make(orig, name)
            self.originals[name] = orig
            setattr(S, name, wrapper)
            if getattr(A, name, None) is orig:
                setattr(A, name, wrapper)
            self.installed.append(name)
        return self

    def uninstall(self):
        import speckit.schedulers as S
        import speckit.analysis as A
        for name, orig in self.originals.items():
            cur = getattr(S, name, None)
            if getattr(cur, "_verif_probe", False):
                setattr(S, name, orig)
            cur = getattr(A, name, None)
            if getattr(cur, "_verif_probe", False):
                setattr(A, name, orig)
        self.originals = {}

    def _make(self, orig, name):
        probe = self

        @functools.wraps(orig)
        def wrapper(**args):
            probe.depth += 1
            try:
                out = orig(**args)
            finally:
                probe.depth -= 1
            try:
                probe.callback(name, dict(args), out, probe.depth)
            except Exception as e:  # a monitor bug must never change behaviour
                probe.callback_error = repr(e)
            return out

        wrapper._verif_probe = True
        return wrapper


class KernelProbe:
    """Records every backend statistics call made by the dispatcher in speckit.analysis."""

    def __init__(self, callback):
        self.callback = callback
        self.installed = []
        self.originals = {}

    def install(self):
        import speckit.analysis as A
        for name in KERNEL_NAMES:
            orig = getattr(A, name, None)
            if orig is None or getattr(orig, "_verif_probe", False):
                continue
            self.originals[name] = orig
            setattr(A, name, self._make(orig, name))
            self.installed.append(name)
        return self

    def uninstall(self):
        import speckit.analysis as A
        for name, orig in self.originals.items():
            setattr(A, name, orig)
        self.originals = {}

    def _make(self, orig, name):
        probe = self

        def wrapper(*args, **kw):
            out = orig(*args, **kw)
            try:
                probe.callback(name, args, out)
            except Exception as e:
                probe.callback_error = repr(e)
            return out

        wrapper.__name__ = getattr(orig, "__name__", name)
        wrapper._verif_probe = True
        return wrapper
