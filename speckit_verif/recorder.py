"""Per-shard observation log: what the monitors actually saw.

A Recorder lives in a worker process.  Property code calls

    rec.case(desc, nontrivial)      once per generated case (sets the "current case")
    rec.violation(key, msg, detail) when an oracle is refuted on the current case
    rec.count(name), rec.ratio(name, v), rec.distinct(name, value), rec.blocked(reason)

and the worker dumps everything to JSON for the runner to merge.  The current case is also
written to a progress file so that a crash (signal) can be attributed to the case that was
running.
"""
import hashlib
import json
import os
import time

import numpy as np

MAX_VIOL_PER_KEY = 12
MAX_SAMPLES = 4


def jsonable(o):
    """Convert numpy scalars/arrays (recursively) into plain JSON types."""
    if isinstance(o, dict):
        return {str(k): jsonable(v) for k, v in o.items()}
    if isinstance(o, (list, tuple)):
        return [jsonable(v) for v in o]
    if isinstance(o, np.ndarray):
        if o.size > 64:
            return {"ndarray": list(o.shape), "dtype": str(o.dtype),
                    "head": jsonable(o.ravel()[:8].tolist())}
        return jsonable(o.tolist())
    if isinstance(o, (np.integer,)):
        return int(o)
    if isinstance(o, (np.floating,)):
        return jsonable(float(o))
    if isinstance(o, (np.bool_,)):
        return bool(o)
    if isinstance(o, complex) or isinstance(o, np.complexfloating):
        return {"re": jsonable(float(o.real)), "im": jsonable(float(o.imag))}
    if isinstance(o, float):
        if o != o:
            return "nan"
        if o in (float("inf"), float("-inf")):
            return "inf" if o > 0 else "-inf"
        return o
    if isinstance(o, (int, str, bool)) or o is None:
        return o
    return repr(o)


def case_hash(desc):
    s = json.dumps(jsonable(desc), sort_keys=True)
    return hashlib.sha1(s.encode()).hexdigest()[:12]


class Recorder:
    def __init__(self, progress_file=None):
        self.evaluations = 0
        self.nontrivial = set()
        self.counters = {}
        self.ratios = {}
        self.ratio_cases = {}
        self.distincts = {}
        self.violations = {}      # key -> list of dicts
        self.viol_counts = {}
        self.samples = []
        self.blocked_n = 0
        self.blocked_reasons = {}
        self.notes = []
        self.current = None
        self.progress_file = progress_file
        self._pf = open(progress_file, "w") if progress_file else None
        self.t0 = time.time()

    # -- cases -----------------------------------------------------------------
    def case(self, desc, nontrivial=True):
        self.evaluations += 1
        self.current = desc
        if nontrivial:
            self.nontrivial.add(case_hash(desc))
        if len(self.samples) < MAX_SAMPLES and nontrivial:
            self.samples.append(jsonable(desc))
        if self._pf is not None:
            try:
                self._pf.seek(0)
                self._pf.truncate()
                self._pf.write(json.dumps(jsonable(desc)))
                self._pf.flush()
            except Exception:
                pass

    def mark_nontrivial(self, desc=None):
        d = desc if desc is not None else self.current
        self.nontrivial.add(case_hash(d))
        if len(self.samples) < MAX_SAMPLES:
            self.samples.append(jsonable(d))

    # -- observations ----------------------------------------------------------
    def count(self, name, n=1):
        self.counters[name] = self.counters.get(name, 0) + int(n)

    def ratio(self, name, value):
        """Track the worst (largest) observed value/tolerance ratio."""
        try:
            v = float(value)
        except Exception:
            return
        if v != v:
            return
        if name not in self.ratios or v > self.ratios[name]:
            self.ratios[name] = v
            self.ratio_cases[name] = jsonable(self.current)

    def distinct(self, name, value):
        self.distincts.setdefault(name, set()).add(
            value if isinstance(value, (int, str)) else case_hash(value))

    def blocked(self, reason):
        self.blocked_n += 1
        r = str(reason)[:160]
        self.blocked_reasons[r] = self.blocked_reasons.get(r, 0) + 1

    def note(self, text):
        if len(self.notes) < 20:
            self.notes.append(str(text)[:400])

    def violation(self, key, msg, detail=None, case=None):
        self.viol_counts[key] = self.viol_counts.get(key, 0) + 1
        lst = self.violations.setdefault(key, [])
        if len(lst) < MAX_VIOL_PER_KEY:
            lst.append({"key": key, "msg": str(msg)[:1000],
                        "case": jsonable(case if case is not None else self.current),
                        "detail": jsonable(detail)})

    # -- output ----------------------------------------------------------------
    def dump(self):
        return {
            "evaluations": self.evaluations,
            "nontrivial": sorted(self.nontrivial),
            "counters": self.counters,
            "ratios": self.ratios,
            "ratio_cases": self.ratio_cases,
            "distincts": {k: sorted(map(str, v))[:200000] for k, v in self.distincts.items()},
            "violations": self.violations,
            "viol_counts": self.viol_counts,
            "samples": self.samples,
            "blocked": self.blocked_n,
            "blocked_reasons": self.blocked_reasons,
            "notes": self.notes,
            "wall_s": time.time() - self.t0,
        }

    def close(self):
        if self._pf is not None:
            try:
                self._pf.close()
            except Exception:
                pass
