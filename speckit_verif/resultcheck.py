"""Identity / formula monitors over one SpectrumResult (C09, C10, C11, C20).

All functions read public attributes only and report through the recorder.
"""
import numpy as np

from . import refmodel

CROSS_ONLY = ["csd", "Gyx", "Hxy", "Hyx", "coh", "ccoh", "cs", "tf", "cf", "cf_db", "cf_rad",
              "cf_deg", "cf_rad_unwrapped", "cf_deg_unwrapped", "GyyCx", "GyyRx", "GyySx",
              "Gxy_dev", "Hxy_dev", "coh_dev", "Gxy_error", "Hxy_mag_error", "Hxy_rad_error",
              "Hxy_deg_error", "coh_error", "Gxy_emp_dev"]
AUTO_ONLY = ["psd", "G", "asd", "ps", "Gxx_emp_dev"]
BOTH = ["Gxx", "Gyy", "Gxy", "ENBW", "Gxx_dev", "Gyy_dev", "Gxx_error", "Gyy_error", "XX_mean",
        "YY_mean", "XY_M2", "XY_emp_var", "XY_emp_dev"]
ERRBARS = ["Gxx_dev", "Gyy_dev", "Gxy_dev", "Hxy_dev", "coh_dev", "Gxx_error", "Gyy_error",
           "Gxy_error", "Hxy_mag_error", "Hxy_rad_error", "Hxy_deg_error", "coh_error"]


def relerr(a, b, floor=0.0):
    a, b = np.asarray(a), np.asarray(b)
    with np.errstate(all="ignore"):
        d = np.abs(a - b)
        s = np.maximum(np.abs(b), floor)
        e = np.where(d == 0, 0.0, d / np.where(s == 0, 1e-300, s))
        e = np.where(np.isnan(a) & np.isnan(b), 0.0, e)
        e = np.where(np.isinf(a) & np.isinf(b) & (np.sign(np.real(a)) == np.sign(np.real(b))),
                     0.0, e)
    return e


def noise_bins(res, order):
    """Bins whose estimate is pure rounding noise: the detrended segment is identically zero
    (L <= order+1) or the power is < 1e-24 of the largest bin."""
    L = np.asarray(res.L)
    XX = np.asarray(res.XX)
    YY = np.asarray(res.YY) if res.iscsd else XX
    mx, my = float(np.max(XX)) if XX.size else 0.0, float(np.max(YY)) if YY.size else 0.0
    return (L <= order + 1) | (XX <= 1e-24 * mx) | (YY <= 1e-24 * my)


# -----------------------------------------------------------------------------
# C09
# -----------------------------------------------------------------------------

def c09_identities(res, rec, tag=""):
    coh = np.asarray(res.coh)
    Gxx, Gyy, Gxy = np.asarray(res.Gxx), np.asarray(res.Gyy), np.asarray(res.Gxy)
    K = np.asarray(res.K)
    rec.count("c09_bins", len(coh))
    if np.any(~np.isfinite(coh)):
        rec.violation("coherence-not-finite", f"{tag}coherence has non-finite entries")
        return
    if np.any(coh < -1e-12) or np.any(coh > 1 + 1e-9):
        j = int(np.argmax(np.maximum(coh - 1, -coh)))
        rec.violation("coherence-out-of-range", f"{tag}coh[{j}]={coh[j]!r} outside [0,1]")
    rec.ratio("coh_minus_1_over_1e-9", float(np.max(coh - 1)) / 1e-9)
    lhs, rhs = np.abs(Gxy) ** 2, Gxx * Gyy
    if np.any(lhs > rhs * (1 + 1e-9) + 0.0):
        j = int(np.argmax(lhs - rhs))
        if lhs[j] > 1e-300:
            rec.violation("cauchy-schwarz", f"{tag}|Gxy|^2={lhs[j]!r} > Gxx*Gyy={rhs[j]!r} (bin {j})")
    XX, YY = np.asarray(res.XX), np.asarray(res.YY)
    one = (K == 1) & (XX * YY > 0)
    rec.count("c09_single_segment_bins", int(one.sum()))
    if np.any(one) and np.any(np.abs(coh[one] - 1) > 1e-9):
        j = int(np.nonzero(one)[0][int(np.argmax(np.abs(coh[one] - 1)))])
        rec.violation("coherence-single-segment", f"{tag}bin {j}: K=1 but coh={coh[j]!r} != 1")
    with np.errstate(all="ignore"):
        s = np.asarray(res.GyyCx) + np.asarray(res.GyyRx)
        e = np.abs(s - Gyy)
        if np.any(e > 1e-12 * np.abs(Gyy)):
            j = int(np.argmax(e - 1e-12 * np.abs(Gyy)))
            rec.violation("coherent-plus-residual", f"{tag}GyyCx+GyyRx={s[j]!r} != Gyy={Gyy[j]!r} "
                                                    f"(bin {j})")
        sx = np.asarray(res.GyySx)
        exp = Gyy * (1 - coh)
        e = np.abs(sx - exp)
        rec.ratio("GyySx_err_over_1e-9Gyy", float(np.max(e / np.maximum(np.abs(Gyy), 1e-300))) / 1e-9)
        if np.any(e > 1e-9 * np.abs(Gyy)):
            j = int(np.argmax(e - 1e-9 * np.abs(Gyy)))
            rec.violation("optimal-residual-GyySx",
                          f"{tag}GyySx[{j}]={sx[j]!r} != Gyy*(1-coh)={exp[j]!r} (Gyy={Gyy[j]!r}, "
                          f"coh={coh[j]!r}, f={res.f[j]:.6g})")


def c09_swap(res, res_swapped, rec):
    rec.count("c09_swap_pairs")
    for name, a, b in [("coh", res_swapped.coh, res.coh),
                       ("Gxy->conj", res_swapped.Gxy, np.conj(res.Gxy)),
                       ("Gxx<->Gyy", res_swapped.Gxx, res.Gyy),
                       ("Gyy<->Gxx", res_swapped.Gyy, res.Gxx)]:
        a, b = np.asarray(a), np.asarray(b)
        scale = max(float(np.max(np.abs(b))), 1e-300)
        if name == "coh":
            e = float(np.max(np.abs(a - b)))
        elif name == "Gxy->conj":
            # the rounding of an averaged cross-product scales with sqrt(Gxx*Gyy), not with its own
            # (for incoherent channels arbitrarily smaller) magnitude
            nat = np.sqrt(np.abs(np.asarray(res.Gxx)) * np.abs(np.asarray(res.Gyy)))
            e = float(np.max(np.abs(a - b) / np.maximum(np.maximum(np.abs(b), nat), 1e-300))) if a.size else 0.0
        else:
            e = float(np.max(relerr(a, b, floor=1e-13 * scale)))
        rec.ratio("swap_err_over_1e-12", e / 1e-12)
        if not (e <= 1e-12):
            rec.violation("channel-swap", f"after swapping the channels: {name} deviates by {e:.3e}")


# -----------------------------------------------------------------------------
# C10
# -----------------------------------------------------------------------------

def c10_formulas(res, rec, tag=""):
    n = np.asarray(res.navg, dtype=float)
    rec.count("c10_bins", len(n))
    with np.errstate(all="ignore"):
        if res.iscsd:
            g2 = np.asarray(res.coh)
            # the property's domain is coherence in (0,1]; a reported value a few ulp above 1
            # (K=1 bins, rounding) makes 1-g2 negative rounding noise and is not asserted
            ok = (g2 > 0) & (g2 <= 1)
            rec.count("c10_bins_in_domain", int(ok.sum()))
            if not np.any(ok):
                return
            ref = refmodel.bp_formulas(np.asarray(res.Gxx), np.asarray(res.Gyy),
                                       np.asarray(res.Gxy), np.asarray(res.Hxy), g2, n)
            names = list(ref)
        else:
            ok = np.ones(len(n), dtype=bool)
            G = np.asarray(res.Gxx)
            ref = {"Gxx_dev": G / np.sqrt(n), "Gyy_dev": G / np.sqrt(n),
                   "Gxx_error": 1 / np.sqrt(n), "Gyy_error": 1 / np.sqrt(n)}
            names = list(ref)
        for name in names:
            got = getattr(res, name)
            if got is None:
                rec.violation("errorbar-missing", f"{tag}{name} is None")
                continue
            got = np.asarray(got)
            e = relerr(got[ok], ref[name][ok])
            e = np.where(np.isfinite(e), e, np.inf)
            m = float(np.max(e)) if e.size else 0.0
            rec.ratio("formula_err_over_1e-12", m / 1e-12)
            if m > 1e-12:
                j = int(np.nonzero(ok)[0][int(np.argmax(e))])
                rec.violation(f"errorbar-formula:{name}",
                              f"{tag}{name}[{j}]={got[j]!r} but the textbook expression gives "
                              f"{ref[name][j]!r} (coh={float(np.asarray(res.coh)[j]) if res.iscsd else 1.0!r}, "
                              f"navg={n[j]:.0f})")
        # deviation = estimate x normalised error
        pairs = [("Gxx_dev", np.asarray(res.Gxx), "Gxx_error"),
                 ("Gyy_dev", np.asarray(res.Gyy), "Gyy_error")]
        if res.iscsd:
            pairs += [("Gxy_dev", np.abs(res.Gxy), "Gxy_error"),
                      ("Hxy_dev", np.abs(res.Hxy), "Hxy_mag_error"),
                      ("coh_dev", np.asarray(res.coh), "coh_error")]
        for dn, est, en in pairs:
            d, er = np.asarray(getattr(res, dn)), np.asarray(getattr(res, en))
            e = relerr(d[ok], (est * er)[ok])
            e = np.where(np.isfinite(e), e, np.inf)
            if e.size and float(np.max(e)) > 1e-12:
                rec.violation(f"dev-ne-estimate-times-error:{dn}",
                              f"{tag}{dn} != estimate * {en} (max rel {float(np.max(e)):.3e})")
        if res.iscsd:
            mag, rad, deg = (np.asarray(res.Hxy_mag_error), np.asarray(res.Hxy_rad_error),
                             np.asarray(res.Hxy_deg_error))
            sel = ok & np.isfinite(mag) & np.isfinite(rad)
            if np.any(rad[sel] < mag[sel] * (1 - 1e-12)) or \
                    np.any(rad[sel] > mag[sel] * (np.pi / 2) * (1 + 1e-12)):
                rec.violation("phase-error-bounds", f"{tag}Hxy_rad_error outside "
                                                    f"[mag_error, pi/2*mag_error]")
            e = relerr(deg[sel], rad[sel] * 180.0 / np.pi)
            if e.size and float(np.max(e)) > 1e-12:
                rec.violation("deg-ne-rad", f"{tag}Hxy_deg_error != 180/pi * Hxy_rad_error")
        if res.iscsd:
            # coherence 1 to rounding (reported a few ulp above 1: single-segment bins, y = g*x):
            # "as coherence tends to 1" every error bar that carries a factor (1-g2) tends to 0 -
            # it must be a finite number no larger than the textbook value at 1-g2 = 1e-9
            g2 = np.asarray(res.coh)
            edge = (g2 > 1) & (g2 <= 1 + 1e-9)
            if np.any(edge):
                rec.count("c10_bins_at_unit_coherence", int(edge.sum()))
                ne = n[edge]
                small = {"Hxy_dev": np.abs(np.asarray(res.Hxy))[edge] * np.sqrt(1e-9 / (2 * ne)),
                         "Hxy_mag_error": np.sqrt(1e-9 / (2 * ne)),
                         "Hxy_rad_error": (np.pi / 2) * np.sqrt(1e-9 / (2 * ne)),
                         "Hxy_deg_error": 90.0 * np.sqrt(1e-9 / (2 * ne)),
                         "coh_dev": np.sqrt(2.0) * 1e-9 / np.sqrt(ne),
                         "coh_error": np.sqrt(2.0) * 1e-9 / np.sqrt(ne)}
                for name in ("Gxx_dev", "Gyy_dev", "Gxy_dev", "Gxx_error", "Gyy_error", "Gxy_error",
                             "Hxy_dev", "Hxy_mag_error", "Hxy_rad_error", "Hxy_deg_error",
                             "coh_dev", "coh_error"):
                    v = np.asarray(getattr(res, name))[edge]
                    bad = ~np.isfinite(v)      # (1-g2) is rounding noise of either sign here
                    if name in small:
                        bad |= np.abs(v) > small[name] * 1.001 + 1e-300
                    if np.any(bad):
                        j = int(np.nonzero(edge)[0][int(np.argmax(bad))])
                        rec.violation(f"errorbar-at-unit-coherence:{name}",
                                      f"{tag}{name}[{j}]={np.asarray(getattr(res, name))[j]!r} where the "
                                      f"coherence is 1 to rounding (coh-1={g2[j] - 1:.2e}, navg={n[j]:.0f})")
    K = np.asarray(res.K)
    lens = np.array([len(np.asarray(d)) for d in res.D])
    if np.any(np.asarray(res.navg) != K) or np.any(lens != K):
        rec.violation("navg-not-plan", f"{tag}navg differs from the plan's K / number of starts")


# -----------------------------------------------------------------------------
# C11
# -----------------------------------------------------------------------------

def c11_identities(res, rec, fs, tag=""):
    M2 = np.asarray(res.XY_M2)
    n = np.asarray(res.navg, dtype=float)
    S2 = np.asarray(res.S2)
    rec.count("c11_bins", len(M2))
    if np.any(M2 < 0) or np.any(np.asarray(res.XY_emp_var) < 0):
        rec.violation("negative-scatter", f"{tag}negative XY_M2 / XY_emp_var")
    if not np.array_equal(M2, np.asarray(res.M2)):
        rec.violation("XY_M2-alias", f"{tag}XY_M2 is not the M2 statistic")
    one = np.asarray(res.K) == 1
    rec.count("c11_single_segment_bins", int(one.sum()))
    dev_name = "Gxy_emp_dev" if res.iscsd else "Gxx_emp_dev"
    other = "Gxx_emp_dev" if res.iscsd else "Gxy_emp_dev"
    dev = getattr(res, dev_name)
    if dev is None:
        rec.violation("emp-dev-missing", f"{tag}{dev_name} is None")
        return
    if getattr(res, other) is not None:
        rec.violation("emp-dev-wrong-mode", f"{tag}{other} must be None for this analysis type")
    dev = np.asarray(dev)
    if np.any(one) and (np.any(M2[one] != 0) or np.any(dev[one] != 0)
                        or np.any(np.asarray(res.XY_emp_var)[one] != 0)):
        rec.violation("single-segment-scatter-nonzero", f"{tag}K=1 bin with non-zero empirical "
                                                        f"variance/deviation")
    with np.errstate(all="ignore"):
        var = M2 / n
        checks = [("XY_emp_var", np.asarray(res.XY_emp_var), var),
                  ("XY_emp_dev", np.asarray(res.XY_emp_dev), np.sqrt(var)),
                  (dev_name, dev, np.sqrt(var) * np.where(S2 > 0, 2.0 / (fs * S2), 0.0))]
        for name, got, exp in checks:
            e = relerr(got, exp)
            m = float(np.max(e)) if e.size else 0.0
            rec.ratio("emp_identity_err_over_1e-12", m / 1e-12)
            if not (m <= 1e-12):
                j = int(np.argmax(e))
                rec.violation(f"empirical-identity:{name}",
                              f"{tag}{name}[{j}]={got[j]!r} != {exp[j]!r} (M2={M2[j]!r}, "
                              f"navg={n[j]:.0f}, S2={S2[j]!r}, fs={fs})")
        if np.any(dev < 0) or np.any(~np.isfinite(dev)):
            rec.violation("emp-dev-invalid", f"{tag}{dev_name} negative or non-finite")


# -----------------------------------------------------------------------------
# C20
# -----------------------------------------------------------------------------

def c20_relations(res, rec, fs, tag=""):
    rec.count("c20_results")
    tol = 1e-12

    def rel(name, got, exp):
        with np.errstate(all="ignore"):
            e = relerr(np.asarray(got), np.asarray(exp))
        m = float(np.max(e)) if e.size else 0.0
        rec.count("c20_relations_checked")
        if not (m <= tol):
            rec.violation(f"relation:{name}", f"{tag}{name} violated (max rel deviation {m:.3e})")

    S2, S12 = np.asarray(res.S2), np.asarray(res.S12)
    with np.errstate(all="ignore"):
        scale = np.where(S2 != 0, 2.0 / (fs * S2), 0.0)
        rel("Gxx=2*XX/(fs*S2)", res.Gxx, np.asarray(res.XX) * scale)
        rel("ENBW=fs*S2/S12", res.ENBW, np.where(S12 != 0, fs * S2 / S12, 0.0))
        if res.iscsd:
            rel("Gyy=2*YY/(fs*S2)", res.Gyy, np.asarray(res.YY) * scale)
            rel("Gxy=2*XY/(fs*S2)", res.Gxy, np.asarray(res.XY) * scale)
            rel("csd=Gxy", res.csd, res.Gxy)
            rel("cs=csd*ENBW", res.cs, np.asarray(res.csd) * np.asarray(res.ENBW))
            rel("Gyx=conj(Gxy)", res.Gyx, np.conj(res.Gxy))
            rel("Hyx=conj(Hxy)", res.Hyx, np.conj(res.Hxy))
            rel("tf=Hxy", res.tf, res.Hxy)
            rel("cf=|Hxy|", res.cf, np.abs(res.Hxy))
            cf = np.asarray(res.cf)
            pos = cf > 0
            if np.any(pos):
                rel("cf_db=20log10(cf)", np.asarray(res.cf_db)[pos], 20 * np.log10(cf[pos]))
            if np.any(~pos):
                rec.count("c20_zero_cf_bins", int(np.sum(~pos)))
                zdb = np.asarray(res.cf_db)[~pos]
                if not np.all(np.isneginf(zdb)):
                    rec.violation("relation:cf_db=20log10(cf)",
                                  f"{tag}cf = 0 but cf_db = {zdb[0]!r} (20*log10(0) is -inf)")
            rel("cf_deg=180/pi*cf_rad", res.cf_deg, np.asarray(res.cf_rad) * 180 / np.pi)
            rel("cf_rad=angle(Hxy)", res.cf_rad, np.angle(res.Hxy))
            rel("cf_rad_unwrapped", res.cf_rad_unwrapped, np.unwrap(np.asarray(res.cf_rad)))
            rel("cf_deg_unwrapped", res.cf_deg_unwrapped,
                np.asarray(res.cf_rad_unwrapped) * 180 / np.pi)
            XX, XY = np.asarray(res.XX), np.asarray(res.XY)
            rel("Hxy=conj(XY)/XX", res.Hxy, np.where(XX != 0, np.conj(XY) / np.where(XX != 0, XX, 1), 0))
            YY = np.asarray(res.YY)
            den = XX * YY
            nz = (XX != 0) & (YY != 0)
            rel("coh=|XY|^2/(XX*YY)", res.coh,
                np.where(nz, np.abs(XY) ** 2 / np.where(nz, den, 1), 0.0))
            rel("ccoh=XY/sqrt(XX*YY)", res.ccoh,
                np.where(nz, XY / np.sqrt(np.where(nz, den, 1)), 0.0))
            for nm in AUTO_ONLY:
                if getattr(res, nm) is not None:
                    rec.violation("not-none:" + nm, f"{tag}{nm} must be None on a two-channel result")
            for nm in CROSS_ONLY:
                if getattr(res, nm) is None:
                    rec.violation("unexpected-none:" + nm, f"{tag}{nm} is None on a two-channel result")
        else:
            rel("psd=Gxx", res.psd, res.Gxx)
            rel("G=Gxx", res.G, res.Gxx)
            rel("asd^2=psd", np.asarray(res.asd) ** 2, res.psd)
            rel("ps=psd*ENBW", res.ps, np.asarray(res.psd) * np.asarray(res.ENBW))
            rel("Gyy aliases Gxx (auto)", res.Gyy, res.Gxx)
            rel("Gxy aliases Gxx (auto)", res.Gxy, res.Gxx)
            for nm in CROSS_ONLY:
                if getattr(res, nm) is not None:
                    rec.violation("not-none:" + nm, f"{tag}{nm} must be None on a single-channel result")
            for nm in AUTO_ONLY:
                if getattr(res, nm) is None:
                    rec.violation("unexpected-none:" + nm, f"{tag}{nm} is None on a single-channel result")
    for nm in ("no_such_attribute", "Gzz", "psd2", "_private_thing"):
        try:
            getattr(res, nm)
            rec.violation("unknown-attribute-no-error", f"{tag}getattr(result, '{nm}') did not raise")
        except AttributeError:
            pass
        except BaseException as e:
            rec.violation("unknown-attribute-wrong-error",
                          f"{tag}getattr(result, '{nm}') raised {type(e).__name__}, not AttributeError")
