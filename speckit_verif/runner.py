"""Runner: shards -> worker subprocesses -> merge -> classify -> evidence / replay files.

Exit status: 0 held on everything observed (possibly with KNOWN-FINDING lines),
             1 at least one violation not listed in KNOWN_FINDINGS.txt (VIOLATION lines),
             2 inconclusive (watchdog fired, deciding monitor never evaluated, too few cases).
"""
import argparse
import concurrent.futures as cf
import hashlib
import importlib
import json
import os
import shutil
import signal
import subprocess
import sys
import tempfile
import time

VERIF = os.path.dirname(os.path.dirname(os.path.abspath(__file__)))
PY = sys.executable


def repo_path():
    return os.environ.get("SPECKIT_VERIF_REPO", "/repo")


def source_hash(repo):
    h = hashlib.sha1()
    d = os.path.join(repo, "speckit")
    for name in sorted(os.listdir(d)):
        if name.endswith(".py"):
            h.update(name.encode())
            with open(os.path.join(d, name), "rb") as f:
                h.update(f.read())
    h.update(os.path.realpath(repo).encode())
    return h.hexdigest()[:16]


def cache_dir_for(repo):
    base = os.path.join(VERIF, ".cache", "numba")
    os.makedirs(base, exist_ok=True)
    d = os.path.join(base, source_hash(repo))
    # prune old caches (keep the 6 most recent) so that edits do not fill the disk
    try:
        entries = [os.path.join(base, e) for e in os.listdir(base)]
        entries = [e for e in entries if os.path.isdir(e) and e != d]
        entries.sort(key=lambda p: os.path.getmtime(p), reverse=True)
        for e in entries[6:]:
            shutil.rmtree(e, ignore_errors=True)
    except Exception:
        pass
    os.makedirs(d, exist_ok=True)
    return d


def base_env(repo, extra=None, threads=None):
    env = dict(os.environ)
    env["SPECKIT_VERIF_REPO"] = repo
    env["PYTHONPATH"] = VERIF + os.pathsep + env.get("PYTHONPATH", "")
    env["PYTHONHASHSEED"] = "0"
    env["NUMBA_CACHE_DIR"] = cache_dir_for(repo)
    env["MPLBACKEND"] = "Agg"
    env["MPLCONFIGDIR"] = os.path.join(VERIF, ".cache", "mpl")
    env["OMP_NUM_THREADS"] = "1"
    env["OPENBLAS_NUM_THREADS"] = "1"
    env["MKL_NUM_THREADS"] = "1"
    env.pop("NUMBA_ENABLE_CUDASIM", None)
    env.pop("NUMBA_THREADING_LAYER", None)
    if threads:
        env["NUMBA_NUM_THREADS"] = str(int(threads))
    if extra:
        for k, v in extra.items():
            if v is None:
                env.pop(k, None)
            else:
                env[k] = str(v)
    return env


def warm_cache(repo):
    """Compile the JIT kernels once so that parallel shards load them from the cache."""
    d = cache_dir_for(repo)
    marker = os.path.join(d, ".warm")
    if os.path.exists(marker):
        return 0.0
    t0 = time.time()
    env = base_env(repo, threads=2)
    try:
        subprocess.run([PY, "-m", "speckit_verif.warm"], env=env, timeout=600,
                       stdout=subprocess.DEVNULL, stderr=subprocess.DEVNULL, cwd=VERIF)
        open(marker, "w").write("ok")
    except Exception:
        pass
    return time.time() - t0


def run_worker(pid, shard, repo, workdir):
    name = shard["name"]
    sf = os.path.join(workdir, name + ".shard.json")
    of = os.path.join(workdir, name + ".out.json")
    pf = os.path.join(workdir, name + ".progress.json")
    ef = os.path.join(workdir, name + ".stderr")
    with open(sf, "w") as f:
        json.dump(shard, f)
    env = base_env(repo, shard.get("env"), shard.get("threads", 2))
    timeout = shard.get("timeout", 900)
    t0 = time.time()
    res = {"name": name, "rc": None, "timed_out": False, "out": None, "progress": None,
           "stderr": ""}
    with open(ef, "w") as errf:
        try:
            p = subprocess.Popen([PY, "-X", "faulthandler", "-m", "speckit_verif.worker",
                                  pid, sf, of, pf], env=env, cwd=VERIF,
                                 stdout=subprocess.DEVNULL, stderr=errf,
                                 start_new_session=True)
            try:
                res["rc"] = p.wait(timeout=timeout)
            except subprocess.TimeoutExpired:
                res["timed_out"] = True
                try:
                    os.killpg(p.pid, signal.SIGKILL)
                except Exception:
                    p.kill()
                p.wait()
        except Exception as e:  # pragma: no cover
            res["stderr"] = repr(e)
    res["wall_s"] = time.time() - t0
    try:
        with open(of) as f:
            res["out"] = json.load(f)
    except Exception:
        pass
    try:
        with open(pf) as f:
            res["progress"] = json.load(f)
    except Exception:
        pass
    try:
        with open(ef) as f:
            res["stderr"] += f.read()[-3000:]
    except Exception:
        pass
    return res


def load_known(pid):
    """Parse KNOWN_FINDINGS.txt -> {key: text} for 'open:' lines of this property."""
    path = os.path.join(VERIF, "KNOWN_FINDINGS.txt")
    known = {}
    if not os.path.exists(path):
        return known
    for line in open(path):
        line = line.strip()
        if not line.startswith("open:"):
            continue  # 'fixed:' lines and comments suppress nothing
        toks = line.split()
        prop = key = None
        for t in toks:
            if t.startswith("property="):
                prop = t.split("=", 1)[1]
            if t.startswith("key="):
                key = t.split("=", 1)[1]
        if prop == pid and key:
            rest = line.split("key=" + key, 1)[1].strip()
            known[key] = rest
    return known


def main(argv=None):
    ap = argparse.ArgumentParser(prog="check")
    ap.add_argument("pid")
    ap.add_argument("--tier", default=os.environ.get("VERIF_TIER", "quick"),
                    choices=["quick", "thorough"])
    ap.add_argument("--replay", default=None)
    ap.add_argument("--jobs", type=int, default=None)
    ap.add_argument("--keep", action="store_true", help="keep the scratch directory")
    args = ap.parse_args(argv)
    pid = args.pid.upper()
    try:
        seed = int(os.environ.get("VERIF_SEED", "0"))
    except ValueError:
        seed = 0
    repo = repo_path()
    t_start = time.time()
    mod = importlib.import_module("speckit_verif.props." + pid.lower())
    warm_s = warm_cache(repo)

    workdir = tempfile.mkdtemp(prefix=f"speckit_verif_{pid}_")
    try:
        if args.replay:
            with open(args.replay) as f:
                rp = json.load(f)
            shards = [{"name": "replay", "replay": rp["case"], "threads": 4,
                       "timeout": 1800, "env": rp.get("env") or {}}]
        else:
            shards = mod.shards(args.tier, seed)
        jobs = args.jobs or getattr(mod, "JOBS", {}).get(args.tier, 8)
        results = []
        with cf.ThreadPoolExecutor(max_workers=max(1, jobs)) as ex:
            futs = [ex.submit(run_worker, pid, s, repo, workdir) for s in shards]
            for fu in futs:
                results.append(fu.result())
        return finish(mod, pid, args, seed, repo, shards, results, t_start, warm_s)
    finally:
        if not args.keep:
            shutil.rmtree(workdir, ignore_errors=True)


def finish(mod, pid, args, seed, repo, shards, results, t_start, warm_s):
    from .recorder import case_hash
    tier = args.tier
    evaluations = 0
    nontrivial = set()
    counters, ratios, ratio_cases, distincts = {}, {}, {}, {}
    violations = {}
    viol_counts = {}
    samples = []
    blocked = 0
    blocked_reasons = {}
    notes = []
    inconclusive = []
    shard_info = []
    for s, r in zip(shards, results):
        out = r["out"]
        info = {"name": r["name"], "wall_s": round(r["wall_s"], 1), "rc": r["rc"],
                "timed_out": r["timed_out"]}
        if out is not None:
            evaluations += out["evaluations"]
            nontrivial.update(out["nontrivial"])
            for k, v in out["counters"].items():
                counters[k] = counters.get(k, 0) + v
            for k, v in out["ratios"].items():
                if k not in ratios or v > ratios[k]:
                    ratios[k] = v
                    ratio_cases[k] = out["ratio_cases"].get(k)
            for k, v in out["distincts"].items():
                distincts.setdefault(k, set()).update(v)
            for k, lst in out["violations"].items():
                violations.setdefault(k, []).extend(
                    dict(v, shard=r["name"], env=s.get("env") or {}) for v in lst)
            for k, v in out["viol_counts"].items():
                viol_counts[k] = viol_counts.get(k, 0) + v
            for smp in out["samples"]:
                if len(samples) < 6:
                    samples.append(smp)
            blocked += out["blocked"]
            for k, v in out["blocked_reasons"].items():
                blocked_reasons[k] = blocked_reasons.get(k, 0) + v
            notes.extend(out.get("notes", []))
            info["evaluations"] = out["evaluations"]
            if out["status"] != "ok":
                inconclusive.append(f"shard {r['name']}: harness error: "
                                    f"{(out['error'] or '').strip().splitlines()[-1][:300]}")
                notes.append(f"shard {r['name']} traceback: {(out['error'] or '')[-1500:]}")
        else:
            if r["timed_out"]:
                inconclusive.append(f"shard {r['name']}: wall-clock watchdog "
                                    f"({s.get('timeout', 900)} s) fired")
            elif r["rc"] is not None and r["rc"] < 0:
                # killed by a signal: a crash of the code under test on the running case
                key = "process-crash"
                viol_counts[key] = viol_counts.get(key, 0) + 1
                violations.setdefault(key, []).append({
                    "key": key, "msg": f"worker died with signal {-r['rc']}",
                    "case": r["progress"], "detail": {"stderr": r["stderr"][-1500:]},
                    "shard": r["name"], "env": s.get("env") or {}})
            else:
                inconclusive.append(f"shard {r['name']}: no output (rc={r['rc']}): "
                                    f"{r['stderr'][-600:]}")
        shard_info.append(info)

    known = load_known(pid)
    new_keys = [k for k in violations if k not in known]
    known_hit = [k for k in violations if k in known]

    # deciding monitors must have been reached
    if not args.replay:
        for cname in getattr(mod, "DECIDING_COUNTERS", []):
            if counters.get(cname, 0) <= 0:
                inconclusive.append(f"deciding monitor '{cname}' was never evaluated")
        need = getattr(mod, "MIN_NONTRIVIAL", {}).get(tier, 2)
        if len(nontrivial) < need:
            inconclusive.append(f"only {len(nontrivial)} distinct non-trivial cases "
                                f"(minimum {need})")
        if hasattr(mod, "post_check"):
            try:
                inconclusive.extend(mod.post_check(counters) or [])
            except Exception as e:  # pragma: no cover
                inconclusive.append(f"post_check failed: {e!r}")
        if evaluations > 0 and blocked * 2 > evaluations:
            inconclusive.append(f"{blocked} of {evaluations} cases blocked by another "
                                f"property's failure")

    # replay files
    lines = []
    rdir = os.path.join(VERIF, "replays", pid)
    for k in new_keys:
        os.makedirs(rdir, exist_ok=True)
        v = violations[k][0]
        path = os.path.join(rdir, f"{k.replace('/', '_')[:60]}-{case_hash(v['case'])}.json")
        with open(path, "w") as f:
            json.dump({"property": pid, "key": k, "msg": v["msg"], "case": v["case"],
                       "detail": v.get("detail"), "seed": seed, "tier": tier,
                       "env": v.get("env") or {}, "count": viol_counts.get(k, 1),
                       "repo": repo}, f, indent=1)
        lines.append(f"VIOLATION property={pid} replay={path}")
        print(f"  [{k}] x{viol_counts.get(k, 1)}: {v['msg'][:300]}")
    for k in known_hit:
        print(f"KNOWN-FINDING: property={pid} key={k} {known[k]}"
              f" (observed {viol_counts.get(k, 1)}x)")
    for ln in lines:
        print(ln)

    wall = time.time() - t_start
    n_viol = sum(viol_counts.get(k, 1) for k in new_keys)
    verdict = "violated" if new_keys else ("inconclusive" if inconclusive else "held")
    if not args.replay:
        evidence = {
            "property_id": pid,
            "tier": tier,
            "seed": seed,
            "level": getattr(mod, "LEVEL", "exploration"),
            "coverage": {
                "evaluations": int(evaluations),
                "distinct_nontrivial": int(len(nontrivial)),
                "rule": getattr(mod, "RULE", ""),
                "samples": samples[:6] if samples else [],
                "counters": counters,
                "worst_ratio_to_tolerance": {k: round(v, 6) for k, v in ratios.items()},
                "worst_ratio_cases": ratio_cases,
                "distinct_observed": {k: len(v) for k, v in distincts.items()},
                "blocked_cases": blocked,
                "blocked_reasons": blocked_reasons,
                "known_findings_observed": {k: viol_counts.get(k, 1) for k in known_hit},
                "new_violation_keys": {k: viol_counts.get(k, 1) for k in new_keys},
                "inconclusive_reasons": inconclusive,
                "shards": shard_info,
                "notes": notes[:20],
                "verdict": verdict,
                "tree_under_test": repo,
                "source_hash": source_hash(repo),
                "jit_warmup_s": round(warm_s, 1),
            },
            "assumptions": list(getattr(mod, "ASSUMPTIONS", [])),
            "wall_s": round(wall, 2),
            "violations": int(n_viol),
        }
        # evidence/ holds runs against the repository itself; a run pointed at another tree with
        # SPECKIT_VERIF_REPO (seeded changes, self-tests) writes to scratch_evidence/ (git-ignored)
        foreign = os.environ.get("SPECKIT_VERIF_REPO") not in (None, "", "/repo")
        edir = os.path.join(VERIF, "scratch_evidence" if foreign else "evidence")
        os.makedirs(edir, exist_ok=True)
        from .recorder import jsonable
        with open(os.path.join(edir, pid + ".json"), "w") as f:
            json.dump(jsonable(evidence), f, indent=1, sort_keys=False, allow_nan=False)

    print(f"{pid} tier={tier} seed={seed} verdict={verdict} evaluations={evaluations} "
          f"distinct_nontrivial={len(nontrivial)} blocked={blocked} wall={wall:.1f}s")
    if ratios:
        print("  worst observed/tolerance: " +
              ", ".join(f"{k}={v:.3g}" for k, v in sorted(ratios.items())))
    if new_keys:
        return 1
    if inconclusive:
        for r in inconclusive:
            print(f"INCONCLUSIVE property={pid} reason={r}")
        return 2
    return 0


if __name__ == "__main__":
    sys.exit(main())
