"""Seeded workload generators: scheduler configurations, records, windows, start patterns."""
import hashlib
import math

import numpy as np

SCHEDS = ["lpsd", "ltf", "vectorized_ltf", "new_ltf"]
SCHED_FUNC = {"lpsd": "lpsd_plan", "ltf": "ltf_plan", "vectorized_ltf": "vectorized_ltf_plan",
              "new_ltf": "new_ltf_plan"}


def subseed(*parts):
    h = hashlib.sha1(("|".join(str(p) for p in parts)).encode()).digest()
    return int.from_bytes(h[:8], "little") & 0x7FFFFFFFFFFFFFFF


def rng_for(*parts):
    return np.random.default_rng(subseed(*parts))


def loguniform(rng, lo, hi):
    return float(math.exp(rng.uniform(math.log(lo), math.log(hi))))


# -----------------------------------------------------------------------------
# Scheduler configurations (C02-C04)
# -----------------------------------------------------------------------------

def plan_config(rng, nmax=30000, klass=None):
    """One admissible configuration: N>=8, fs>0, 0<=olap<1, 1<=bmin<N/2, 1<=Lmin<=N,
    Jdes>=1, Kdes>=1.  `klass` selects a boundary-seeking class (None = random mix)."""
    classes = ["random", "random", "random", "tiny-N", "dense-overlap", "Lmin-eq-N",
               "bmin-large", "Jdes-1", "Kdes-1", "short-segments", "Lmin-large",
               "kaiser-default-olap", "many-segments", "navg-tie", "round-olap", "round-numbers", "olap-near-1"]
    if klass is None:
        klass = classes[int(rng.integers(len(classes)))]
    if klass == "tiny-N":
        N = int(rng.choice([8, 9, 10, 11, 12, 16, 17, 23, 31, 32, 33, 64]))
    else:
        N = int(round(loguniform(rng, 8, nmax)))
    fs = loguniform(rng, 1e-3, 1e6)
    if rng.random() < 0.25:
        fs = float(rng.choice([1.0, 2.0, 10.0, 1000.0, 0.5]))
    olap = float(rng.choice([0.0, 0.5, 0.75, 0.84, -1]))
    if olap < 0:
        olap = float(rng.uniform(0, 0.99))
    bchoices = [1.0, 1.0, 1.5, 2.0, -1]
    bmin = float(rng.choice(bchoices))
    if bmin < 0:
        bmin = float(rng.uniform(1.0, max(1.0001, min(8.0, N / 2 - 0.01))))
    lchoice = int(rng.integers(6))
    Lmin = [1, 1, 2, 8, int(rng.integers(1, N + 1)), int(rng.integers(1, max(2, N // 8)))][lchoice]
    Jdes = int(rng.choice([1, 2, 5, 10, 50, 100, 500, 1000, 5000]))
    Kdes = int(rng.choice([1, 2, 10, 100, 1000, 5000]))
    if klass == "dense-overlap":
        olap = float(rng.choice([0.9, 0.95, 0.98, 0.985, float(rng.uniform(0.9, 0.99))]))
        Lmin = int(rng.choice([1, 1, 2, 3]))
    elif klass == "Lmin-eq-N":
        Lmin = N
    elif klass == "Lmin-large":
        Lmin = max(1, int(N * rng.uniform(0.3, 1.0)))
    elif klass == "bmin-large":
        bmin = float(rng.uniform(max(1.0, N / 2 - 3), N / 2 - 0.01))
    elif klass == "Jdes-1":
        Jdes = 1
    elif klass == "Kdes-1":
        Kdes = 1
    elif klass == "short-segments":
        Lmin = 1
        Jdes = int(rng.choice([1, 2, 3, 5, 10]))
        Kdes = int(rng.choice([1, 2, 10]))
    elif klass == "many-segments":
        # bins averaged over more than 16384 / 32768 segments
        N = int(rng.integers(17000, min(max(nmax, 17001), 70000)))
        olap = float(rng.choice([0.9, 0.95, 0.75]))
        Lmin = int(rng.choice([1, 1, 2]))
        Jdes = int(rng.choice([2, 5, 10]))
        Kdes = int(rng.choice([10, 100]))
        bmin = 1.0
    elif klass == "olap-near-1":
        # overlaps at the very top of [0, 1): the nominal segment count is astronomically large
        # and only the N-L+1 cap keeps the plan finite
        N = int(round(loguniform(rng, 8, max(9, min(nmax, 30000)))))
        olap = float(rng.choice([1 - 2.0 ** -53, 1 - 2.0 ** -53, 1 - 1e-15, 1 - 1e-12, 1 - 1e-9, 0.999999]))
        Lmin = int(rng.choice([1, 1, 2, 8]))
        Jdes = int(rng.choice([2, 5, 10, 20]))
        Kdes = int(rng.choice([1, 10, 1000]))
        bmin = 1.0
    elif klass == "round-numbers":
        # the numbers people type: record lengths, rates and minimum lengths that divide each
        # other, so that steps fs/L are exactly representable and frequency walks can land
        # bit-exactly on special values (Nyquist, a grid point)
        N = int(rng.choice([64, 100, 256, 500, 512, 1000, 1024, 2000, 2048, 4096, 5000, 8192, 10000]))
        fs = float(rng.choice([1.0, 2.0, 10.0, 100.0, 1000.0, 0.5, 256.0, 1024.0]))
        olap = float(rng.choice([0.0, 0.25, 0.5, 0.75]))
        div = int(rng.choice([1, 2, 4, 5, 8, 10, 16, 20]))
        Lmin = int(rng.choice([1, 1, max(1, N // div), max(1, N // div), 100, 250, 256]))
        Jdes = int(rng.choice([1, 2, 4, 8, 10, 16, 50, 100, 1000]))
        Kdes = int(rng.choice([1, 2, 10, 100]))
        bmin = float(rng.choice([1.0, 1.0, 2.0, 4.0]))
    elif klass in ("navg-tie", "round-olap"):
        # overlaps that are short decimals / simple fractions; for "navg-tie" the record length is
        # chosen so that a bin at L = Lmin has (N-L)/((1-olap)L) exactly half-integer: the nominal
        # segment count sits on a rounding tie
        olap = float(rng.choice([0.1, 0.2, 0.25, 0.3, 1 / 3, 0.4, 0.45, 0.6, 2 / 3, 0.7, 0.8, 0.85, 0.9]))
        if klass == "navg-tie":
            for _ in range(200):
                L0 = int(rng.integers(8, 401))
                k = int(rng.integers(0, 7))
                v = (k + 0.5) * (1 - olap) * L0
                if abs(v - round(v)) < 1e-9 and L0 + round(v) >= 8:
                    N = int(L0 + round(v))
                    Lmin = L0
                    bmin = 1.0
                    break
    elif klass == "kaiser-default-olap":
        from .refmodel import kaiser_alpha, kaiser_rov
        olap = float(kaiser_rov(kaiser_alpha(float(rng.choice([40, 60, 100, 150, 200])))))
        Lmin = int(rng.choice([1, 1, 2]))
    Lmin = int(min(max(1, Lmin), N))
    if not (bmin < N / 2):
        bmin = 1.0
    cfg = {"N": N, "fs": fs, "olap": olap, "bmin": bmin, "Lmin": Lmin, "Jdes": Jdes,
           "Kdes": Kdes, "klass": klass}
    if rng.random() < 0.15:
        # the same numbers in the scalar types callers hold them in
        cfg["fs_form"] = str(rng.choice(["np.float32", "np.float64", "int"]))
        if cfg["fs_form"] in ("np.float32", "int"):
            cfg["fs"] = float(rng.choice([1.0, 2.0, 10.0, 1000.0, 0.5, 48000.0]))
        cfg["N_form"] = str(rng.choice(["int", "np.int64"]))
    return cfg


def sched_kwargs(cfg):
    return {k: cfg[k] for k in ("N", "fs", "olap", "bmin", "Lmin", "Jdes", "Kdes")}


# -----------------------------------------------------------------------------
# Records (C01, C05, ...)
# -----------------------------------------------------------------------------

RECORD_CLASSES = ["white", "walk", "sine+noise", "offset1e6", "ramp", "impulses", "tiny", "huge",
                  "ar1", "offset3e10", "int-zero-sum"]


def record(rng, N, klass):
    t = np.arange(N, dtype=np.float64)
    if klass == "white":
        x = rng.standard_normal(N)
    elif klass == "walk":
        x = np.cumsum(rng.standard_normal(N))
    elif klass == "sine+noise":
        x = np.sin(2 * np.pi * rng.uniform(0.01, 0.45) * t + rng.uniform(0, 6.28)) \
            + 0.1 * rng.standard_normal(N)
    elif klass == "offset1e6":
        x = 1e6 + rng.standard_normal(N)
    elif klass == "offset3e10":
        x = 3e10 + rng.standard_normal(N)
    elif klass == "ramp":
        x = rng.uniform(-5, 5) * t / max(N, 1) * 100 + rng.standard_normal(N)
    elif klass == "impulses":
        x = np.zeros(N)
        k = max(1, N // 50)
        x[rng.integers(0, N, size=k)] = rng.standard_normal(k) * 10
    elif klass == "int-zero-sum":
        # integer-valued counts whose sum - hence whose floating-point record mean - is exactly 0,
        # while the means of its segments are not
        x = rng.integers(-50, 51, size=N).astype(np.float64)
        x += np.round(3 * np.sin(2 * np.pi * np.arange(N) / max(N, 1)))     # slow integer drift
        x[-1] -= float(np.sum(x))
    elif klass == "zeros":
        x = np.zeros(N)
    elif klass == "const":
        x = np.full(N, float(rng.uniform(-3, 3)))
    elif klass == "tiny":
        x = 1e-60 * rng.standard_normal(N)
    elif klass == "huge":
        x = 1e60 * rng.standard_normal(N)
    elif klass == "ar1":
        from scipy.signal import lfilter
        x = lfilter([1.0], [1.0, -0.9], rng.standard_normal(N))
    else:
        raise ValueError(klass)
    return np.ascontiguousarray(x, dtype=np.float64)


PAIR_CLASSES = ["independent", "gain", "delayed", "identical", "mixed"]


def second_channel(rng, x, klass):
    N = x.shape[0]
    scale = float(np.std(x)) or 1.0
    if klass == "independent":
        return scale * rng.standard_normal(N)
    if klass == "gain":
        return float(rng.choice([-1, 1])) * 10 ** rng.uniform(-2, 2) * x
    if klass == "delayed":
        d = int(rng.integers(1, 8))
        y = np.empty_like(x)
        y[d:] = x[:-d] if d < N else 0
        y[:d] = x[0] if N else 0
        return y + 0.05 * scale * rng.standard_normal(N)
    if klass == "identical":
        return x.copy()
    if klass == "mixed":
        d = int(rng.integers(0, 5))
        y = np.roll(x, d) * rng.uniform(0.2, 2.0) + scale * rng.uniform(0.1, 1.0) * rng.standard_normal(N)
        return y
    raise ValueError(klass)


WINDOW_CLASSES = ["ones", "hann", "kaiser", "random", "delta"]


def raw_window(rng, L, klass):
    if klass == "ones":
        return np.ones(L)
    if klass == "hann":
        return np.hanning(L).astype(np.float64)
    if klass == "kaiser":
        return np.kaiser(L + 1, rng.uniform(2, 26))[:-1].astype(np.float64)
    if klass == "random":
        w = rng.standard_normal(L)
        if L > 2:
            w[rng.integers(0, L, size=max(1, L // 10))] = 0.0
        return w
    if klass == "delta":
        w = np.zeros(L)
        w[int(rng.integers(0, L))] = 1.0
        return w
    raise ValueError(klass)


START_CLASSES = ["even", "random", "equal", "extremes", "blocks", "single", "ap-ends",
                 "ap-one-off", "sorted-random"]


def starts(rng, N, L, K, klass):
    hi = N - L
    if klass == "single" or K == 1:
        return np.array([int(rng.integers(0, hi + 1))], dtype=np.int64)
    if klass == "even":
        return np.round(np.arange(K) * (hi / (K - 1))).astype(np.int64)
    if klass == "random":
        return rng.integers(0, hi + 1, size=K).astype(np.int64)
    if klass == "equal":
        return np.full(K, int(rng.integers(0, hi + 1)), dtype=np.int64)
    if klass == "extremes":
        s = np.where(rng.random(K) < 0.5, 0, hi).astype(np.int64)
        s[0], s[-1] = 0, hi
        return s
    if klass == "blocks":
        base = rng.integers(0, hi + 1, size=max(1, K // 4)).astype(np.int64)
        return np.resize(base, K)
    if klass in ("ap-ends", "ap-one-off"):
        # looks like an arithmetic progression from its first two and last elements only
        hop = max(1, hi // max(1, K - 1)) if hi > 0 else 0
        hop = int(rng.integers(1, hop + 1)) if hop >= 1 else 0
        s0 = int(rng.integers(0, hi - hop * (K - 1) + 1)) if hi - hop * (K - 1) >= 0 else 0
        s = (s0 + hop * np.arange(K)).astype(np.int64)
        s = np.clip(s, 0, hi)
        if K >= 4:
            if klass == "ap-ends":
                s[2:-1] = rng.integers(0, hi + 1, size=K - 3)
            else:
                j = int(rng.integers(2, K - 1))
                s[j] = int(rng.integers(0, hi + 1))
        return s
    if klass == "sorted-random":
        return np.sort(rng.integers(0, hi + 1, size=K)).astype(np.int64)
    raise ValueError(klass)


OMEGA_CLASSES = ["zero", "pi", "int-bin", "half-bin", "uniform", "near-zero", "near-pi"]


def omega(rng, L, klass):
    if klass == "zero":
        return 0.0
    if klass == "pi":
        return math.pi
    if klass == "int-bin":
        return 2 * math.pi * int(rng.integers(0, L // 2 + 1)) / L
    if klass == "half-bin":
        return min(math.pi, 2 * math.pi * (int(rng.integers(0, max(1, L // 2))) + 0.5) / L)
    if klass == "uniform":
        return float(rng.uniform(0, math.pi))
    if klass == "near-zero":
        return 1e-9
    if klass == "near-pi":
        return math.pi - 1e-9
    raise ValueError(klass)
