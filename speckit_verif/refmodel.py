"""Executable reference models, written from the property statements.

Nothing in this file imports speckit.  Every oracle returns a list of (key, message) pairs
(empty = the observation is consistent with the property) or plain numbers to compare with.
"""
import math
from fractions import Fraction

import numpy as np

U = 2.0 ** -53


# =============================================================================
# Windows (C05, C06, C12)
# =============================================================================

def kaiser_alpha(psll):
    """Heinzel, Ruediger, Schilling (2002), eq. for alpha(PSLL) - own transcription."""
    x = psll / 100.0
    return -0.0821377 + 4.71469 * x - 0.493285 * x * x + 0.0889732 * x * x * x


def kaiser_rov(alpha):
    """Recommended overlap for a Kaiser window (same report)."""
    x = alpha
    return (100.0 - 1.0 / (0.0061076 + 0.00912223 * x - 0.000925946 * x * x
                           + 4.42204e-05 * x * x * x)) / 100.0


def window(kind, L, psll=None, func=None):
    """DFT-even Kaiser with shape alpha(psll)*pi / Hann (np.hanning) / user callable."""
    L = int(L)
    if kind == "kaiser":
        return np.kaiser(L + 1, kaiser_alpha(psll) * np.pi)[:-1].astype(np.float64)
    if kind == "hann":
        return np.hanning(L).astype(np.float64)
    if kind == "callable":
        return np.asarray(func(L), dtype=np.float64)
    raise ValueError(kind)


def mainlobe_halfwidth(kind, psll=None):
    if kind == "kaiser":
        return math.sqrt(1.0 + kaiser_alpha(psll) ** 2)
    if kind == "hann":
        return 2.0
    return 1.0


# =============================================================================
# Reference estimator (C01, C05, C08, C11) and the rounding budget (DESIGN section 3)
# =============================================================================

def poly_basis(L, order):
    """Orthonormal basis of the polynomials of degree <= order on L equispaced points."""
    if order < 0:
        return None
    if L == 1:
        t = np.zeros(1)
    else:
        t = np.linspace(-1.0, 1.0, L)
    V = np.polynomial.legendre.legvander(t, order)
    Q, _ = np.linalg.qr(V, mode="reduced")
    return Q[:, : min(L, order + 1)]


def ref_segments(x, starts, L, w, omega, order, chunk_elems=4_000_000):
    """Per-segment windowed-DFT values X_k and the rounding budget delta_k for each."""
    x = np.asarray(x, dtype=np.float64)
    starts = np.asarray(starts).astype(np.int64)
    w = np.asarray(w, dtype=np.float64)
    L = int(L)
    K = starts.shape[0]
    n = np.arange(L, dtype=np.float64)
    e = np.exp(-1j * omega * n)
    B = poly_basis(L, order)
    X = np.empty(K, dtype=np.complex128)
    A = np.empty(K)
    mx = np.empty(K)
    step = max(1, chunk_elems // max(L, 1))
    idx0 = np.arange(L, dtype=np.int64)[None, :]
    for j0 in range(0, K, step):
        j1 = min(K, j0 + step)
        segs = x[starts[j0:j1, None] + idx0]
        mx[j0:j1] = np.max(np.abs(segs), axis=1)
        if B is not None:
            if L <= order:
                segs = np.zeros_like(segs)
            else:
                segs = segs - (segs @ B) @ B.T
        v = segs * w
        A[j0:j1] = np.sum(np.abs(v), axis=1)
        X[j0:j1] = v @ e
    s = abs(math.sin(omega))
    # Goertzel recurrence: the state has magnitude |x|/|sin w|, each of the L steps rounds it once.
    # Measured worst |error| / (u * L * min(L, 1/|sin w|) * sum|w x|): 0.05 on noise-like records,
    # 0.2 on impulsive ones (few samples carry sum|w x|); the coefficient 2 is 10x that.
    g = 2.0 * L * min(float(L), (1.0 / s) if s > 0 else float(L)) + 64.0
    if order >= 0:
        # Rounding of the detrending itself, relative to the RAW segment.  Random-sign rounding
        # grows like sqrt(L); for (nearly) constant segments the naive running sums of the kernels
        # round with a systematic drift that grows like L (measured 0.09*L*u per basis column on a
        # constant record seen through a one-sample window) - hence the second branch.
        growth = max(32.0 * (1.0 + math.sqrt(L) / 8.0), 0.5 * L)
        D = (order + 1) * growth * U * float(np.sum(np.abs(w))) * mx
    else:
        D = np.zeros(K)
    delta = g * U * A + (1.0 + g * U) * D
    return X, delta


def ref_stats(x, y, starts, L, w, omega, order):
    """Reference (MXX, MYY, mu, M2) with rounding bounds.

    y None -> auto mode (MYY = MXX, mu = MXX, scatter of |X_k|^2)."""
    X, dx = ref_segments(x, starts, L, w, omega, order)
    K = X.shape[0]
    ax = np.abs(X)
    pxx = ax * ax
    exx = 2 * ax * dx + dx * dx
    red = 4.0 * U * K  # naive (fastmath) summation of K terms in the reducers
    if y is None:
        Z = pxx.astype(np.complex128)
        ez = exx
        MXX = float(np.mean(pxx))
        MYY = MXX
        bXX = float(np.mean(exx)) + red * MXX
        bYY = bXX
    else:
        Y, dy = ref_segments(y, starts, L, w, omega, order)
        ay = np.abs(Y)
        pyy = ay * ay
        eyy = 2 * ay * dy + dy * dy
        Z = X * np.conj(Y)
        ez = ax * dy + ay * dx + dx * dy
        MXX = float(np.mean(pxx))
        MYY = float(np.mean(pyy))
        bXX = float(np.mean(exx)) + red * MXX
        bYY = float(np.mean(eyy)) + red * MYY
    mu = complex(np.mean(Z))
    bmu = float(np.mean(ez)) + red * float(np.mean(np.abs(Z)))
    if K >= 2:
        dev = np.abs(Z - mu)
        M2 = float(np.mean(dev * dev))
        ee = ez + bmu
        bM2 = float(np.mean(2 * dev * ee + ee * ee)) + red * M2
    else:
        M2 = 0.0
        bM2 = 0.0
    return {"MXX": MXX, "MYY": MYY, "mu": mu, "M2": M2,
            "bXX": bXX, "bYY": bYY, "bmu": bmu, "bM2": bM2, "K": K,
            "Z": Z}


def compare_stats(got, ref, slack=1.0):
    """got = (MXX, MYY, mu_r, mu_i, M2) from the code under test.

    Returns (list of (name, err, bound)) for the entries that exceed the budget, and the
    worst err/bound ratio seen (bound 0 and err 0 -> ratio 0)."""
    MXX, MYY, mu_r, mu_i, M2 = [float(v) for v in got]
    items = [
        ("MXX", abs(MXX - ref["MXX"]), ref["bXX"]),
        ("MYY", abs(MYY - ref["MYY"]), ref["bYY"]),
        ("mu", abs(complex(mu_r, mu_i) - ref["mu"]), ref["bmu"]),
        ("mu_imag_sign", abs(mu_i - ref["mu"].imag), ref["bmu"]),
        ("M2", abs(M2 - ref["M2"]), ref["bM2"]),
    ]
    bad = []
    worst = 0.0
    for name, err, bound in items:
        if not np.isfinite(err):
            bad.append((name, float("inf"), bound))
            worst = float("inf")
            continue
        b = bound * slack
        if err > b:
            bad.append((name, err, bound))
        if b > 0:
            worst = max(worst, err / b)
        elif err > 0:
            worst = float("inf")
    return bad, worst


# =============================================================================
# Plan oracles (C02, C03, C04)
# =============================================================================

def eff_params(cfg, sched):
    bmin = float(cfg["bmin"])
    Lmin = int(cfg["Lmin"])
    if sched == "lpsd":
        bmin, Lmin = 1.0, 1
    return bmin, max(1, Lmin)


def _arr(plan, k):
    return np.asarray(plan[k])


def plan_safety(plan, cfg, sched):
    """C02: every bin has segments, in bounds, covering the record."""
    out = []
    N = int(cfg["N"])
    bmin, Lmin = eff_params(cfg, sched)
    for k in ("f", "r", "b", "L", "K", "navg", "D", "O"):
        if k not in plan:
            return [("plan-missing-key", f"plan has no '{k}'")]
    f = _arr(plan, "f")
    nf = len(f)
    if nf < 1:
        return [("plan-empty", "plan has no frequency bin")]
    for k in ("r", "b", "L", "K", "navg", "O", "D"):
        if len(plan[k]) != nf:
            out.append(("plan-length-mismatch", f"len({k})={len(plan[k])} != nf={nf}"))
    if out:
        return out
    if "nf" in plan and int(plan["nf"]) != nf:
        out.append(("plan-nf-field", f"nf field {plan['nf']} != {nf}"))
    L = _arr(plan, "L")
    K = _arr(plan, "K")
    navg = _arr(plan, "navg")
    if not (np.all(L == np.round(L)) and np.all(K == np.round(K))):
        out.append(("plan-noninteger", "L or K not integral"))
    L = L.astype(np.int64)
    bad = np.nonzero((L < Lmin) | (L > N))[0]
    if bad.size:
        j = int(bad[0])
        out.append(("L-out-of-range", f"bin {j}: L={int(L[j])} not in [{Lmin},{N}]"))
    bad = np.nonzero((K == 1) & (L != N))[0]
    if bad.size:
        j = int(bad[0])
        out.append(("single-segment-not-whole-record",
                    f"bin {j}: K=1 but L={int(L[j])} != N={N}"))
    for j in range(nf):
        d = np.asarray(plan["D"][j])
        n = d.shape[0] if d.ndim == 1 else -1
        if d.ndim != 1 or n < 1:
            out.append(("bin-without-segment", f"bin {j}: D has shape {d.shape}"))
            break
        Lj = int(L[j])
        if int(K[j]) != n:
            out.append(("K-ne-len-D", f"bin {j}: K={int(K[j])} but {n} starts"))
            break
        if int(navg[j]) != n:
            out.append(("navg-ne-len-D", f"bin {j}: navg={int(navg[j])} but {n} starts"))
            break
        if not np.all(d == np.round(d)):
            out.append(("start-noninteger", f"bin {j}: non-integer start"))
            break
        if d[0] != 0:
            out.append(("first-start-not-zero", f"bin {j}: D[0]={d[0]}"))
            break
        mn, mxv = d.min(), d.max()
        if mn < 0 or mxv > N - Lj:
            out.append(("start-out-of-bounds",
                        f"bin {j}: starts in [{mn},{mxv}] with L={Lj}, N={N} "
                        f"(max allowed {N - Lj})"))
            break
        if d[-1] + Lj != N:
            out.append(("record-end-not-covered",
                        f"bin {j}: last start {d[-1]} + L {Lj} != N {N}"))
            break
        if n > 1 and np.any(np.diff(d) <= 0):
            i = int(np.nonzero(np.diff(d) <= 0)[0][0])
            out.append(("starts-not-strictly-increasing",
                        f"bin {j}: D[{i}]={d[i]}, D[{i + 1}]={d[i + 1]} (K={n}, L={Lj})"))
            break
    return out


def lookup_ratio(cfg, sched):
    """Ratio q of neighbouring points of the vectorised scheduler's lookup grid (1 else)."""
    if sched != "vectorized_ltf":
        return 1.0
    N = int(cfg["N"])
    fs = float(cfg["fs"])
    bmin, _ = eff_params(cfg, sched)
    fmin = bmin * fs / N
    fmax = fs / 2
    npts = int(10 * int(cfg["Jdes"]))
    if npts < 2:
        return fmax / fmin
    return (fmax / fmin) ** (1.0 / (npts - 1))


def plan_grid(plan, cfg, sched, ratio_cb=None):
    """C03: DFT constraint, stepping, start, Nyquist, bin numbers, bmin."""
    out = []
    N = int(cfg["N"])
    fs = float(cfg["fs"])
    bmin, Lmin = eff_params(cfg, sched)
    f = _arr(plan, "f").astype(float)
    r = _arr(plan, "r").astype(float)
    b = _arr(plan, "b").astype(float)
    L = _arr(plan, "L").astype(float)
    tol = 4 * U
    e = np.abs(r * L - fs) / fs
    if ratio_cb:
        ratio_cb("rL_eq_fs", float(e.max()) / tol)
    if np.any(e > tol):
        j = int(np.argmax(e))
        out.append(("dft-constraint", f"bin {j}: r*L={r[j] * L[j]!r} != fs={fs!r} "
                                      f"(r={r[j]!r}, L={int(L[j])})"))
    if len(f) > 1:
        e = np.abs(f[1:] - (f[:-1] + r[:-1])) / f[1:]
        if ratio_cb:
            ratio_cb("stepping", float(e.max()) / tol)
        if np.any(e > tol):
            j = int(np.argmax(e))
            out.append(("stepping", f"f[{j + 1}]={f[j + 1]!r} != f[{j}]+r[{j}]="
                                    f"{f[j] + r[j]!r}"))
        if np.any(np.diff(f) <= 0):
            out.append(("grid-not-increasing", "f is not strictly increasing"))
    f0 = bmin * fs / N
    if abs(f[0] - f0) > tol * f0:
        out.append(("grid-start", f"f[0]={f[0]!r} != bmin*fs/N={f0!r}"))
    if np.any(f >= fs / 2):
        j = int(np.argmax(f >= fs / 2))
        out.append(("nyquist", f"f[{j}]={f[j]!r} >= fs/2={fs / 2!r}"))
    bb = f * L / fs
    e = np.abs(b - bb) / np.maximum(np.abs(bb), 1e-300)
    if np.any(e > 8 * U):
        j = int(np.argmax(e))
        out.append(("bin-number", f"bin {j}: b={b[j]!r} != f*L/fs={bb[j]!r}"))
    if "m" in plan:
        m = _arr(plan, "m").astype(float)
        e = np.abs(m - bb) / np.maximum(np.abs(bb), 1e-300)
        if np.any(e > 8 * U):
            j = int(np.argmax(e))
            out.append(("bin-number", f"bin {j}: m={m[j]!r} != f*L/fs={bb[j]!r}"))
    # bmin: shortfall expressed in samples of L
    q = lookup_ratio(cfg, sched)
    short = (bmin / q - bb) * fs / f
    allow = 1.0 + 1e-6
    if ratio_cb:
        ratio_cb("bmin_shortfall_samples", float(short.max()) / allow)
    if np.any(short > allow):
        j = int(np.argmax(short))
        out.append(("below-bmin", f"bin {j}: b={bb[j]!r} below bmin={bmin} (lookup ratio "
                                  f"{q:.6g}) by {short[j]:.3f} samples of L={int(L[j])}"))
    return out


def nearest_int_candidates(val):
    lo = math.floor(val)
    frac = val - lo
    if abs(frac - 0.5) < 1e-9 * max(1.0, abs(val)):
        return {lo, lo + 1}
    return {lo} if frac < 0.5 else {lo + 1}


def plan_spacing(plan, cfg, sched, ratio_cb=None, count_cb=None):
    """C04: monotone L / navg, averaging formula, even spreading, reported overlap and (for
    lpsd / ltf / vectorized_ltf) log spacing and Kdes at unclamped bins."""
    out = []
    N = int(cfg["N"])
    fs = float(cfg["fs"])
    olap = float(cfg["olap"])
    Jdes = int(cfg["Jdes"])
    Kdes = int(cfg["Kdes"])
    bmin, Lmin = eff_params(cfg, sched)
    f = _arr(plan, "f").astype(float)
    L = _arr(plan, "L").astype(np.int64)
    navg = _arr(plan, "navg").astype(np.int64)
    O = _arr(plan, "O").astype(float)
    nf = len(f)
    if np.any(np.diff(L) > 0):
        j = int(np.nonzero(np.diff(L) > 0)[0][0])
        out.append(("L-increases", f"L[{j}]={L[j]} < L[{j + 1}]={L[j + 1]}"))
    if np.any(np.diff(navg) < 0):
        j = int(np.nonzero(np.diff(navg) < 0)[0][0])
        out.append(("navg-decreases", f"navg[{j}]={navg[j]} > navg[{j + 1}]={navg[j + 1]}"))
    xov = 1.0 - olap
    cache = {}
    seen_keys = set()

    def add(key, msg):
        if key not in seen_keys:  # one report per mechanism and plan
            seen_keys.add(key)
            out.append((key, msg))

    for j in range(nf):
        Lj = int(L[j])
        d = np.asarray(plan["D"][j]).astype(np.int64)
        Kj = d.shape[0]
        val = 1.0 + (N - Lj) / (xov * Lj)
        raw_c = nearest_int_candidates(val)
        cands = {min(c, N - Lj + 1) for c in raw_c}
        if count_cb:
            count_cb("navg_formula_checked")
            if len(raw_c) == 2:
                count_cb("navg_exact_half_ties_seen")
        if int(navg[j]) not in cands:
            add("navg-not-nearest-integer",
                f"bin {j}: navg={int(navg[j])}, expected {sorted(cands)} from "
                f"1+(N-L)/((1-olap)L)={val:.6f} capped at {N - Lj + 1} "
                f"(L={Lj}, N={N}, olap={olap})")
        hit = cache.get((Lj, Kj))
        if hit is not None and np.array_equal(hit[0], d):
            Oexp = hit[1]
        else:
            if Kj > 1:
                ideal = np.arange(Kj) * ((N - Lj) / (Kj - 1))
                dev = float(np.max(np.abs(d - ideal)))
                if ratio_cb:
                    ratio_cb("start_spread", dev / (0.5 + 1e-6))
                if dev > 0.5 + 1e-6:
                    i = int(np.argmax(np.abs(d - ideal)))
                    add("start-not-evenly-spread",
                        f"bin {j}: D[{i}]={d[i]} vs ideal {ideal[i]:.3f} (K={Kj}, L={Lj})")
                Oexp = float(np.mean((Lj - np.diff(d)) / Lj))
            else:
                Oexp = 0.0
            cache[(Lj, Kj)] = (d, Oexp)
        if abs(O[j] - Oexp) > 1e-9:
            add("reported-overlap", f"bin {j}: O={O[j]!r} but realised mean "
                                    f"overlap {Oexp!r} (K={Kj}, L={Lj})")
    if sched in ("lpsd", "ltf", "vectorized_ltf"):
        c = (N / 2.0) ** (1.0 / Jdes) - 1.0
        q = lookup_ratio(cfg, sched)
        fresmin = fs / N
        freslim = fresmin * (1.0 + xov * (Kdes - 1))
        Lid = fs / (f * c)
        un = (f * c >= freslim * (1 + 1e-9)) & (1.0 / c >= bmin * (1 + 1e-9)) \
            & (Lid / q >= Lmin + 0.5 + 1e-6) & (Lid <= N) & (navg > 1)
        idx = np.nonzero(un)[0]
        if count_cb:
            count_cb("unclamped_bins", int(idx.size))
        if idx.size:
            lo = Lid[idx] / q - 0.5 - 1e-6
            hi = Lid[idx] + 0.5 + 1e-6
            Lu = L[idx].astype(float)
            bad = (Lu < lo) | (Lu > hi)
            if ratio_cb:
                mid = 0.5 * (lo + hi)
                half = 0.5 * (hi - lo)
                ratio_cb("log_spacing_L", float(np.max(np.abs(Lu - mid) / half)))
            if np.any(bad):
                i = int(idx[int(np.argmax(bad))])
                out.append(("not-log-spaced",
                            f"bin {i}: unclamped, L={int(L[i])} but fs/(f*c)={Lid[i]:.3f} "
                            f"(c={c:.6g}, lookup ratio {q:.6g}); r/f={fs / L[i] / f[i]:.6g}"))
            need = Kdes - np.ceil(Kdes / (2.0 * Lid[idx] / q)) - 1
            need = np.minimum(need, N - L[idx] + 1)  # only N-L+1 distinct positions exist
            badk = navg[idx] < need
            if np.any(badk):
                i = int(idx[int(np.argmax(badk))])
                out.append(("fewer-than-Kdes",
                            f"bin {i}: unclamped, navg={int(navg[i])} < Kdes={Kdes} "
                            f"(L={int(L[i])}, ideal {Lid[i]:.3f})"))
    return out


def nf_regime(cfg, nf_vec, nf_ltf, ltf_plan=None):
    """Classify a >10 % difference in bin count between vectorised and iterative LTF by
    mechanism (see DESIGN C04 / KNOWN_FINDINGS).  Returns None if within 10 %.

    vec-coarse-grid: the lookup grid (10*Jdes points) has fewer than one point per five
    iterative bins *in the region where the segment length still varies* (Lmin < L < N).  Where
    L is clamped (to N or to Lmin) every grid point holds the same parameters, so the grid
    density cannot matter there - a mismatch that needs those bins to reach the threshold is
    not this mechanism."""
    if abs(nf_vec - nf_ltf) <= 0.1 * nf_ltf:
        return None
    if ltf_plan is not None:
        L = np.asarray(ltf_plan["L"])
        _, Lmin = eff_params(cfg, "ltf")
        nf_var = int(np.sum((L > Lmin) & (L < int(cfg["N"]))))
    else:
        nf_var = nf_ltf
    if 10 * int(cfg["Jdes"]) < 5 * nf_var:
        return "vec-coarse-grid"
    if abs(nf_vec - nf_ltf) == 1 and nf_ltf < 10:
        return "vec-nf-one-bin-small-plan"
    return "vec-nf-differs"


# =============================================================================
# Bendat-Piersol error formulas (C10)
# =============================================================================

def bp_formulas(Gxx, Gyy, Gxy, Hxy, g2, n):
    with np.errstate(all="ignore"):
        n = np.asarray(n, dtype=float)
        sn = np.sqrt(n)
        out = {
            "Gxx_dev": Gxx / sn,
            "Gyy_dev": Gyy / sn,
            "Gxy_dev": np.abs(Gxy) / np.sqrt(g2 * n),
            "Hxy_dev": np.abs(Hxy) * np.sqrt(np.abs(1 - g2)) / np.sqrt(2 * g2 * n),
            "coh_dev": np.sqrt(2 * g2) * np.abs(1 - g2) / sn,
            "Gxx_error": 1 / sn,
            "Gyy_error": 1 / sn,
            "Gxy_error": 1 / np.sqrt(g2 * n),
            "Hxy_mag_error": np.sqrt(np.abs(1 - g2)) / np.sqrt(2 * g2 * n),
            "Hxy_rad_error": np.arcsin(np.sqrt(np.abs(1 - g2))) / np.sqrt(2 * g2 * n),
            "coh_error": np.sqrt(2.0) * (1 - g2) / (np.sqrt(g2) * sn),
        }
        out["Hxy_deg_error"] = out["Hxy_rad_error"] * (180.0 / np.pi)
    return out


# =============================================================================
# Lagrange interpolation (C16)
# =============================================================================

def lagrange_ref(d, halfp):
    """Textbook Lagrange weights for evaluating at offset d (0 <= d < 1 from node 0) on
    the nodes -(halfp-1) ... halfp, in exact rational arithmetic."""
    d = Fraction(float(d))
    nodes = list(range(-(halfp - 1), halfp + 1))
    w = []
    for k in nodes:
        num = Fraction(1)
        den = Fraction(1)
        for m in nodes:
            if m != k:
                num *= (d - m)
                den *= (k - m)
        w.append(float(num / den))
    return np.array(w)


# =============================================================================
# IIR cascade (C17)
# =============================================================================

def iir_cascade_ref(samples, a_coeffs, b_coeffs, zi):
    """Per-section scipy.signal.lfilter cascade with carried state (direct form II
    transposed: numerator a_coeffs[i], denominator b_coeffs[i])."""
    from scipy import signal
    y = np.asarray(samples, dtype=np.float64).copy()
    zo = np.array(zi, dtype=np.float64, copy=True)
    for i in range(a_coeffs.shape[0]):
        if y.size:
            y, z = signal.lfilter(a_coeffs[i], b_coeffs[i], y, zi=zo[i])
            zo[i] = z
    return y, zo
