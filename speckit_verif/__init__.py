"""Runtime-monitoring harness for mdovale/SpecKit (see /verif/DESIGN.md)."""
