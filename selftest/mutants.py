#!/usr/bin/env python3
"""Sensitivity self-test: the hand-written 'must catch' breaks of DESIGN section 4.

Each mutant is one textual edit of the repository sources.  The script applies them one at a time
to ONE scratch worktree of /repo (under /tmp, removed at the end), runs the owning check's quick
tier with SPECKIT_VERIF_REPO pointing at it, and writes selftest/MUTANTS_RESULTS.md.
Nothing is applied to /repo.

    python3 selftest/mutants.py [name-substring ...]
"""
import json
import os
import subprocess
import sys
import time

HERE = os.path.dirname(os.path.abspath(__file__))
VERIF = os.path.dirname(HERE)
WT = "/tmp/selftest_mutants_wt"

M = []


def m(name, prop, path, old, new, checks=None):
    M.append({"name": name, "prop": prop, "path": path, "old": old, "new": new,
              "checks": checks or [prop]})


C = "speckit/core.py"
A = "speckit/analysis.py"
S = "speckit/schedulers.py"
N = "speckit/noise.py"
D = "speckit/dsp.py"
Y = "speckit/systems.py"
U = "speckit/core_cuda.py"

# ---- C01 kernels -------------------------------------------------------------------------------
m("numba-winonly-csd-conj", "C01", C, "        xyi[j] = i1 * r2 - r1 * i2  # Im{X * conj(Y)}\n\n    return _reduce_stats_nb(xx, yy, xyr, xyi)\n\n\n@_njit(parallel=True, fastmath=True, cache=True)\ndef _stats_detrend0_auto",
  "        xyi[j] = r1 * i2 - i1 * r2  # Im{X * conj(Y)}\n\n    return _reduce_stats_nb(xx, yy, xyr, xyi)\n\n\n@_njit(parallel=True, fastmath=True, cache=True)\ndef _stats_detrend0_auto", ["C01", "C07"])
m("numba-detrend0-auto-range-L-1", "C01", C, "        for n in range(L):\n            v = _apply_detrend0_inplace_nb_val(x[s + n], m) * w[n]\n            s0 = v + coeff * s1 - s2\n            s2 = s1\n            s1 = s0\n        r = s1 - s2 * cosw\n        i = s2 * sinw\n\n        p = r * r + i * i",
  "        for n in range(L - 1):\n            v = _apply_detrend0_inplace_nb_val(x[s + n], m) * w[n]\n            s0 = v + coeff * s1 - s2\n            s2 = s1\n            s1 = s0\n        r = s1 - s2 * cosw\n        i = s2 * sinw\n\n        p = r * r + i * i")
m("reducer-M2-K-minus-1", "C01", C, "        M2 = np.mean(dr * dr + di * di)\n    else:\n        M2 = 0.0\n    return MXX, MYY, mu_r, mu_i, M2",
  "        M2 = np.sum(dr * dr + di * di) / (K - 1)\n    else:\n        M2 = 0.0\n    return MXX, MYY, mu_r, mu_i, M2", ["C01", "C11"])
m("numpy-poly-auto-window-before-detrend", "C01", C, "            segs_dt = segs - alpha @ Q.T\n            segs_dt = np.nan_to_num(segs_dt, copy=False)\n            X = (segs_dt * w) @ e\n            X = np.nan_to_num(X, copy=False)\n            p_all[j0:j1] = X.real**2 + X.imag**2",
  "            segs_dt = segs * w - alpha @ Q.T\n            segs_dt = np.nan_to_num(segs_dt, copy=False)\n            X = segs_dt @ e\n            X = np.nan_to_num(X, copy=False)\n            p_all[j0:j1] = X.real**2 + X.imag**2")
m("cuda-blocks-one-short", "C01", U, "    blocks = (K + THREADS_PER_BLOCK - 1) // THREADS_PER_BLOCK\n    _stats_detrend0_csd_cuda_kernel",
  "    blocks = K // THREADS_PER_BLOCK\n    _stats_detrend0_csd_cuda_kernel")
m("cuda-poly-auto-qdot-k0-only", "C01", U, "            qdot = 0.0\n            for k in range(p1):\n                qdot += Q[n, k] * alpha[k]\n            v = (x[s + n] - qdot) * w[n]",
  "            qdot = Q[n, 0] * alpha[0]\n            v = (x[s + n] - qdot) * w[n]", ["C01", "C08"])
# ---- C02 / C03 / C04 schedulers -----------------------------------------------------------------
m("ltf-nseg-truncates", "C04", S, "        averages = int(round_half_up(((N - L_j) / (1 - olap)) / L_j + 1))", "        averages = int(((N - L_j) / (1 - olap)) / L_j + 1)", ["C04"])
m("ltf-drop-single-segment-rule", "C02", S, "        nseg = int(round_half_up((N - dftlen) / (xov * dftlen) + 1))\n        if nseg == 1:\n            dftlen = N\n", "        nseg = int(round_half_up((N - dftlen) / (xov * dftlen) + 1))\n", ["C02"])
m("ltf-starts-floor", "C04", S, "            istart = int(float(start) + 0.5) if start >= 0 else int(float(start) - 0.5)", "            istart = int(float(start))", ["C04", "C02"])
m("vec-searchsorted-right", "C03", S, "        idx = np.searchsorted(f_grid, current_f, side='left')", "        idx = np.searchsorted(f_grid, current_f, side='right')", ["C03", "C04"])
m("ltf-dftlen-int-not-round", "C04", S, "        dftlen = int(round_half_up(fs / fres))\n        if dftlen > N:", "        dftlen = int(fs / fres)\n        if dftlen > N:", ["C04", "C03"])
m("ltf-fres-not-recomputed", "C03", S, "        fres = fs / dftlen\n        fbin = fi / fres\n\n        f_arr.append(fi)", "        fbin = fi / fres\n\n        f_arr.append(fi)", ["C03"])
m("lpsd-forwards-user-bmin", "C03", S, "    forwarded[\"bmin\"] = 1.0\n", "", ["C03"])
m("vec-grid-density-Jdes", "C04", S, "    num_grid_points = int(10*Jdes)", "    num_grid_points = int(max(2, Jdes))", ["C04", "C03"])
m("new-ltf-overlap-from-nominal", "C04", S, "    O = np.divide(L - shift, L, out=np.zeros_like(f, dtype=float), where=K > 1)\n\n    output = {\"f\": f, \"r\": r, \"b\": b,", "    O = np.full(len(f), float(olap))\n\n    output = {\"f\": f, \"r\": r, \"b\": b,", ["C04"])
m("drop-K-cap", "C02", S, "        averages = max(1, min(averages, N - L_j + 1))\n", "", ["C02", "C04"])
# ---- C05 analyzer -----------------------------------------------------------------------------
m("window-cache-not-keyed", "C05", A, "            if L in window_cache:\n                return window_cache[L]", "            if window_cache:\n                return next(iter(window_cache.values()))", ["C05"])
m("S12-not-squared", "C05", A, "                    float(S1 * S1),\n                    float(S2),", "                    float(S1),\n                    float(S2),", ["C05", "C06", "C20"])
m("kaiser-alpha-without-pi", "C05", A, "                w = win_func(L + 1, alpha * np.pi)[:-1]", "                w = win_func(L + 1, alpha)[:-1]", ["C05", "C12"])
m("kaiser-symmetric", "C05", A, "                w = win_func(L + 1, alpha * np.pi)[:-1]", "                w = win_func(L, alpha * np.pi)", ["C05", "C12"])
m("band-D-not-masked", "C05", A, "            plan_output[\"D\"] = [d for d, keep in zip(D_norm, mask) if keep]", "            plan_output[\"D\"] = D_norm[: int(mask.sum())]", ["C05"])
m("single-bin-fres-int", "C05", A, "            segL = int(round(float(self.fs) / final_fres))", "            segL = int(float(self.fs) / final_fres)", ["C05"])
# ---- C06 / C20 result -----------------------------------------------------------------------------
m("Gxx-one-sided-factor", "C06", A, "            val = np.divide(\n                2.0 * XX,\n                self.fs * S2,", "            val = np.divide(\n                1.0 * XX,\n                self.fs * S2,", ["C06", "C19"])
m("ENBW-S1-not-squared", "C06", A, "            val = np.divide(\n                self.fs * S2,\n                S12,", "            val = np.divide(\n                self.fs * S2,\n                np.sqrt(S12),", ["C06", "C20"])
m("Hxy-no-conj", "C07", A, "                        np.conj(self._data[\"XY\"]),\n                        self._data[\"XX\"],", "                        self._data[\"XY\"],\n                        self._data[\"XX\"],", ["C07", "C20"])
m("coh-abs-not-squared", "C09", A, "                    ) ** 2\n                elif name == \"ccoh\":", "                    )\n                elif name == \"ccoh\":", ["C09", "C20"])
m("GyyRx-uses-Gxx", "C09", A, "                    val = (1 - self.coh) * self.Gyy", "                    val = (1 - self.coh) * self.Gxx", ["C09"])
m("coh-dev-unsquared", "C10", A, "                    np.sqrt(np.abs((2 * coh / navg) * (1 - coh) ** 2))", "                    np.sqrt(np.abs((2 * coh / navg) * (1 - coh)))", ["C10"])
m("Gxy-error-without-coh", "C10", A, "                val = 1 / np.sqrt(coh * navg) if self.iscsd else None", "                val = 1 / np.sqrt(navg) if self.iscsd else None", ["C10"])
m("deg-error-factor", "C10", A, "                val = np.rad2deg(self.Hxy_rad_error) if self.iscsd else None", "                val = self.Hxy_rad_error * 57.0 if self.iscsd else None", ["C10"])
m("emp-dev-missing-sqrt", "C11", A, "                base = np.sqrt(\n                    np.divide(m2, navg, out=np.zeros_like(m2), where=(navg > 0))\n                )", "                base = np.divide(m2, navg, out=np.zeros_like(m2), where=(navg > 0))", ["C11"])
m("emp-dev-S12-for-S2", "C11", A, "                S2 = np.nan_to_num(self._data[\"S2\"], nan=0.0, posinf=0.0, neginf=0.0)\n                scale", "                S2 = np.nan_to_num(self._data[\"S12\"], nan=0.0, posinf=0.0, neginf=0.0)\n                scale", ["C11"])
m("interp-magnitude-not-reim", "C20", A, "            real_part = np.interp(f, self.f, np.real(target_signal))\n            imag_part = np.interp(f, self.f, np.imag(target_signal))\n            out = real_part + 1j * imag_part", "            out = np.interp(f, self.f, np.abs(target_signal)) * np.exp(1j * np.interp(f, self.f, np.angle(target_signal)))", ["C20"])
m("get_rms-ignores-band", "C19", A, "        return float(integral_rms(self.f, self.asd, band))", "        return float(integral_rms(self.f, self.asd, None))", ["C19"])
# ---- C13 ---------------------------------------------------------------------------------------
m("nx2-not-transposed", "C13", A, "            elif x.shape[1] == 2 and x.shape[0] != 2:\n                data_2n = x.T", "            elif x.shape[1] == 2 and x.shape[0] != 2:\n                data_2n = x.reshape(2, -1)", ["C13"])
# ---- C14 ---------------------------------------------------------------------------------------
m("single-bin-invalidates-plan-cache", "C14", A, "        # -------- Basic validation ----------\n        if not _np.isfinite(freq) or freq < 0:", "        self._plan_cache = None\n        # -------- Basic validation ----------\n        if not _np.isfinite(freq) or freq < 0:", ["C14"])
# ---- C15 ---------------------------------------------------------------------------------------
m("miso-numeric-Tmat-transposed", "C15", Y, "            Tmat[i, j, :] = obj.Gxy\n            Tmat[j, i, :] = np.conj(obj.Gxy)", "            Tmat[j, i, :] = obj.Gxy\n            Tmat[i, j, :] = np.conj(obj.Gxy)", ["C15"])
# ---- C16 ---------------------------------------------------------------------------------------
m("timeshift-floor-to-int", "C16", D, "    shift_ints = np.floor(shifts).astype(int)", "    shift_ints = np.trunc(shifts).astype(int)", ["C16"])
m("timeshift-zero-padding", "C16", D, "        data_padded = np.pad(data_trimmed, (pad_left, pad_right), mode=\"edge\")", "        data_padded = np.pad(data_trimmed, (pad_left, pad_right))", ["C16"])
m("lagrange-wrong-factor", "C16", D, "    taps *= (1 + shift_fracs) * (1 - shift_fracs / halfp)", "    taps *= (1 + shift_fracs) * (1 - shift_fracs / (halfp + 1))", ["C16"])
# ---- C17 / C18 -----------------------------------------------------------------------------------
m("alpha-state-not-stored", "C17", N, "        samples, self._zi_states = _numba_lfilter_cascade(\n            w_noise, self._a_coeffs, self._b_coeffs, self._zi_states\n        )", "        samples, _unused = _numba_lfilter_cascade(\n            w_noise, self._a_coeffs, self._b_coeffs, self._zi_states.copy()\n        )", ["C17"])
m("buffer-drops-sample-at-refill", "C17", N, '        """Retrieves a single sample from the noise stream."""\n        if self._buffer.size == 0:\n            self._buffer = self.get_series(_DEFAULT_BUFFER_SIZE)\n', '        """Retrieves a single sample from the noise stream."""\n        if self._buffer.size == 0:\n            self._buffer = self.get_series(_DEFAULT_BUFFER_SIZE)[1:]\n', ["C17"])
m("alpha-scaling-exponent", "C18", N, "        self._scaling = 1.0 / np.power(self.fmax, self.alpha / 2.0)", "        self._scaling = 1.0 / np.power(self.fmax, self.alpha)", ["C18"])
m("white-rms-half", "C18", N, "        self._rms = np.sqrt(psd * f_sample)", "        self._rms = np.sqrt(psd * f_sample / 2)", ["C18"])
m("fftnoise-nyquist-randomised", "C18", N, "    if N % 2 == 0:  # even length -> Nyquist bin exists\n        F[N // 2] = np.real(F[N // 2])", "    if N % 2 == 0:  # even length -> Nyquist bin exists\n        F[N // 2] = F[N // 2] * 1j", ["C18"])
# ---- C19 ---------------------------------------------------------------------------------------
m("detrend-order-off-by-one", "C19", D, "    coeffs = np.polyfit(t, x, deg=order)", "    coeffs = np.polyfit(t, x, deg=max(order - 1, 0))", ["C19"])
m("crop-strict-inequality", "C19", D, "    mask = (x >= xmin) & (x <= xmax)", "    mask = (x > xmin) & (x < xmax)", ["C19"])


def run(cmd, **kw):
    return subprocess.run(cmd, **kw)


def main(argv):
    sel = [x for x in M if not argv or any(a in x["name"] for a in argv)]
    run(["git", "-C", "/repo", "worktree", "remove", "--force", WT], stdout=subprocess.DEVNULL,
        stderr=subprocess.DEVNULL)
    run(["git", "-C", "/repo", "worktree", "add", "-q", "--detach", WT, "HEAD"], check=True)
    rows = []
    try:
        for x in sel:
            p = os.path.join(WT, x["path"])
            src = open(p).read()
            if src.count(x["old"]) != 1:
                rows.append((x, "EDIT-DOES-NOT-APPLY", {}))
                print(x["name"], "edit does not apply (", src.count(x["old"]), "matches )")
                continue
            open(p, "w").write(src.replace(x["old"], x["new"]))
            res = {}
            t0 = time.time()
            for c in x["checks"]:
                env = dict(os.environ, SPECKIT_VERIF_REPO=WT)
                r = run([os.path.join(VERIF, "check"), c, "--tier", "quick"], env=env, cwd=VERIF,
                        stdout=subprocess.PIPE, stderr=subprocess.STDOUT, text=True)
                keys = [ln.strip()[:140] for ln in r.stdout.splitlines() if ln.startswith("  [")][:2]
                res[c] = (r.returncode, keys)
            open(p, "w").write(src)
            caught = [c for c, (rc, _) in res.items() if rc == 1]
            print(f"{x['name']:45s} owner {x['prop']}: " +
                  " ".join(f"{c}={rc}" for c, (rc, _) in res.items()) + f"  ({time.time() - t0:.0f}s)")
            rows.append((x, "caught" if x["prop"] in caught else
                         ("caught-by-other" if caught else "MISSED"), res))
    finally:
        run(["git", "-C", "/repo", "worktree", "remove", "--force", WT])
        run(["git", "-C", VERIF, "checkout", "--", "evidence"])
    with open(os.path.join(HERE, "MUTANTS_RESULTS.md"), "w") as f:
        f.write("# Hand-written sensitivity mutants (selftest/mutants.py)\n\n"
                "One textual edit each, applied to a scratch worktree; quick tier of the listed "
                "checks with SPECKIT_VERIF_REPO pointing at it.\n\n"
                "| Mutant | Owner | Verdict | Exit codes | First report |\n|---|---|---|---|---|\n")
        for x, verdict, res in rows:
            codes = " ".join(f"{c}={rc}" for c, (rc, _) in res.items())
            first = next((k[0] for _, (rc, k) in res.items() if rc == 1 and k), "")
            f.write(f"| {x['name']} | {x['prop']} | {verdict} | {codes} | {first.replace('|', '/')} |\n")
        n = len(rows)
        f.write(f"\n{sum(1 for _, v, _ in rows if v == 'caught')} of {n} caught by the owning check, "
                f"{sum(1 for _, v, _ in rows if v == 'caught-by-other')} only by another listed check, "
                f"{sum(1 for _, v, _ in rows if v == 'MISSED')} missed, "
                f"{sum(1 for _, v, _ in rows if v == 'EDIT-DOES-NOT-APPLY')} edits did not apply.\n")
    return 0


if __name__ == "__main__":
    sys.exit(main(sys.argv[1:]))
